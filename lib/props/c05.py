"""C05 — Nesting is bounded so no document can exhaust the stack.

Every case runs in a child process on a 2 MiB thread (release build and debug+overflow-check build):
parse; then print, debug-print, clone, drop, toml::from_str / toml_edit::de::from_str into toml::Value.
Oracle (implementation only): never a crash; either rejected, or the measured nesting depth of the decoded
structure is <= DEPTH_BOUND (a constant independent of input size); single constructs nested below the
limit are accepted; nesting at or beyond the limit in a single construct is refused with the recursion-limit error.
"""
from runner import Case

PROP = "C05"
COQ_PROPS = "Props/C05.v"
HARNESS = {"bin": "core"}
# dev = debug assertions + overflow checks at opt-level 1; dbg0 = a plain unoptimised debug build (largest stack frames)
EXTRA_HARNESS = {"dev": ("dev", ()), "dbg0": ("dbg0", ())}
EXTRA_ORACLE = ["dev", "dbg0"]
THEOREMS = ["Props/C05.v (16): check_recursion and the key-path bound are enforced; the depth of every parsed value / document is at most the bound derived from LIMIT (5*LIMIT-6 for a whole document, attained); constructs below the limit are accepted, at the limit rejected (names in coverage.theorem_names)"]
LIMIT = 80
# the bound PROVED for the model in Props/C05.v (C05_depth_bound: DEPTH_BOUND = 5 * LIMIT - 6 = 394) and attained by
# 79 chained [[..]] headers + a 79-segment dotted key + 78 arrays around an inline table with a 79-segment dotted key
DEPTH_BOUND = 5 * LIMIT - 6
RULE = ("every single construct (arrays, inline tables, top-level dotted keys, dotted keys inside inline tables, table header "
        "paths, array-of-tables header paths) at depths LIMIT-3..LIMIT+2 and far beyond, and all products of two and three "
        "constructs on a grid of depths; inputs <= 64 KiB; non-trivial = total requested nesting >= 10")
ASSUMPTIONS = ["stack consumption per frame is a runtime fact: measured on a 2 MiB thread in release and debug builds, not proved"]


def arrays(n, inner=b"1"):
    return b"[" * n + inner + b"]" * n


def inlines(n, inner=b"1", key=b"k"):
    out = inner
    for _ in range(n):
        out = b"{" + key + b" = " + out + b"}"
    return out


def dotted(n):
    return b".".join([b"k"] * n)


def shape(kind, n, inner=b"1"):
    """a VALUE text nested n levels by construct `kind`"""
    if kind == "arr":
        return arrays(n, inner)
    if kind == "inl":
        return inlines(n, inner)
    if kind == "inldot":          # one inline table with an n-segment dotted key
        return b"{" + dotted(max(n, 1)) + b" = " + inner + b"}"
    raise ValueError(kind)


def gen_cases(rng, tier):
    out = []

    def add(text, meta):
        if len(text) <= 65536:
            out.append(Case("depth", [text], meta))
    singles = list(range(LIMIT - 4, LIMIT + 3)) + [1, 2, 10, 40, 120, 300, 1000, 5000]
    for n in singles:
        exp = "ok" if n <= LIMIT - 1 else "recursion"
        must = n <= LIMIT - 2
        add(b"a = " + arrays(n) + b"\n", {"kind": "single-arr", "n": n, "expect": exp, "must_accept": must})
        add(b"a = " + inlines(n) + b"\n", {"kind": "single-inl", "n": n, "expect": exp, "must_accept": must})
        add(dotted(n) + b" = 1\n", {"kind": "single-dotted", "n": n, "expect": exp, "must_accept": must})
        add(b"a = {" + dotted(n) + b" = 1}\n", {"kind": "single-inldot", "n": n, "expect": exp, "must_accept": must and n <= LIMIT - 3})
        add(b"[" + dotted(n) + b"]\n", {"kind": "single-header", "n": n, "expect": exp, "must_accept": must})
        add(b"[[" + dotted(n) + b"]]\n", {"kind": "single-aot", "n": n, "expect": exp, "must_accept": must})
    grid = [1, 2, 5, 20, 39, 40, 41, 60, 78, 79, 80] if tier == "quick" else [1, 2, 3, 5, 10, 20, 30, 39, 40, 41, 50, 60, 70, 77, 78, 79, 80, 81, 100]
    kinds = ["arr", "inl", "inldot"]
    # products of two value constructs (b nested inside a), at top level under a plain / dotted / header path
    for ka in kinds:
        for kb in kinds:
            for na in grid:
                for nb in grid:
                    v = shape(ka, na, shape(kb, nb))
                    add(b"a = " + v + b"\n", {"kind": "prod2:%s*%s" % (ka, kb), "n": na + nb})
    # multiplicative pattern: every level of inline nesting carries a dotted key
    for levels in [2, 5, 10, 20, 40, 60, 79]:
        for seg in [2, 10, 40, 79]:
            k = dotted(seg)
            v = b"1"
            for _ in range(levels):
                v = b"{" + k + b" = " + v + b"}"
            add(b"a = " + v + b"\n", {"kind": "mult-inldot", "n": levels * seg})
            v = b"1"
            for _ in range(levels):
                v = b"[{" + k + b" = " + v + b"}]"
            add(b"a = " + v + b"\n", {"kind": "mult-arr-inldot", "n": levels * seg})
    # the same with SHALLOW SIBLINGS at every level (before and after the deep entry): the depth of a container is the
    # maximum over its entries, not that of its first, last or shallowest one
    for levels in [2, 10, 40, 79]:
        for seg in [1, 2, 40, 79]:
            k = dotted(seg)
            for pos in ("before", "after", "both"):
                v = b"1"
                for _ in range(levels):
                    pre = b"x = 1, " if pos in ("before", "both") else b""
                    post = b", y = [2]" if pos in ("after", "both") else b""
                    v = b"{" + pre + k + b" = " + v + post + b"}"
                add(b"a = " + v + b"\n", {"kind": "sibling-inldot-" + pos, "n": levels * seg})
                v = b"1"
                for _ in range(levels):
                    pre = b"0, " if pos in ("before", "both") else b""
                    post = b", {z = 1}" if pos in ("after", "both") else b""
                    v = b"[" + pre + b"{" + k + b" = " + v + b"}" + post + b"]"
                add(b"a = " + v + b"\n", {"kind": "sibling-arr-inldot-" + pos, "n": levels * seg})
    for n in [40, 78, 79, 80, 200]:
        for pos in ("before", "after", "both"):
            v = b"1"
            for _ in range(n):
                v = b"[" + (b"0, " if pos != "after" else b"") + v + (b", 2" if pos != "before" else b"") + b"]"
            add(b"a = " + v + b"\n", {"kind": "sibling-arr-" + pos, "n": n, "expect": "ok" if n <= LIMIT - 1 else "recursion"})
    # WIDTH is not depth: a container with many shallow container elements is nested no deeper than one of them
    for n in [2, 40, 77, 78, 79, 80, 81, 200, 1000]:
        for elem in (b"[0]", b"{x = 1}", b"[[0]]", b"{y.z = 1}"):
            wide = b"[" + b", ".join([elem] * n) + b"]"
            add(b"a = " + wide + b"\n", {"kind": "wide-array", "n": n, "expect": "ok", "must_accept": True})
            add(b"a = {p = " + wide + b"}\n", {"kind": "wide-array-in-inline", "n": n, "expect": "ok", "must_accept": True})
            add(b"a = {q.r = {p = " + wide + b"}}\n", {"kind": "wide-array-in-inline-dotted", "n": n, "expect": "ok", "must_accept": True})
        widet = b"{" + b", ".join(b"k%d = {x = 1}" % i for i in range(n)) + b"}"
        add(b"a = " + widet + b"\n", {"kind": "wide-inline", "n": n, "expect": "ok", "must_accept": True})
        add(b"a = [" + widet + b"]\n", {"kind": "wide-inline-in-array", "n": n, "expect": "ok", "must_accept": True})
    # three constructs + header path + top-level dotted key
    g3 = [1, 20, 40, 78] if tier == "quick" else [1, 10, 20, 40, 60, 78, 79]
    for nh in g3:
        for nd in g3:
            for nv in g3:
                for hk in ("hdr", "aot"):
                    head = (b"[" + dotted(nh) + b"]\n") if hk == "hdr" else (b"[[" + dotted(nh) + b"]]\n")
                    for kv in kinds:
                        meta = {"kind": "prod3:%s+dotted+%s" % (hk, kv), "n": nh + nd + nv}
                        # the limits are per construct: a header path, a dotted key and a value that EACH stay below the limit
                        # make a document that must be accepted, however large their sum (plain nesting kinds only: for
                        # `inldot` the dotted key counts towards the value's own nesting)
                        if kv in ("arr", "inl") and nh <= LIMIT - 2 and nd <= LIMIT - 2 and nv + 3 <= LIMIT - 2:
                            meta["must_accept"] = True
                        add(head + dotted(nd) + b" = " + shape(kv, nv, shape("arr", 3)) + b"\n", meta)
    # a dotted key and a nested value on ONE top-level line, each below the limit, their sum at and beyond it
    for nd, nv in [(41, 40), (50, 50), (60, 30), (20, 70), (77, 77), (40, 39), (1, 77), (77, 1)]:
        for kv in ("arr", "inl"):
            add(dotted(nd) + b" = " + shape(kv, nv) + b"\n", {"kind": "dotted+%s-sum" % kv, "n": nd + nv, "expect": "ok", "must_accept": True})
            add(b"[" + dotted(30) + b"]\n" + dotted(nd) + b" = " + shape(kv, nv) + b"\n",
                {"kind": "hdr+dotted+%s-sum" % kv, "n": 30 + nd + nv, "expect": "ok", "must_accept": True})
    # MANY containers are not DEEP containers: the nesting counter must come back down after every one of them, the empty ones
    # included (an early return that skips the bookkeeping leaks one level per container)
    for n in [79, 80, 81, 100, 200, 500]:
        for e in (b"[]", b"[ ]", b"{}", b"{ }", b"[[]]", b"[{}]", b"{x = []}", b"[1]", b"{x = 1}"):
            add(b"".join(b"k%d = " % i + e + b"\n" for i in range(n)), {"kind": "many-lines", "n": n, "expect": "ok", "must_accept": True})
            add(b"a = [" + b", ".join([e] * n) + b"]\n", {"kind": "many-in-array", "n": n, "expect": "ok", "must_accept": True})
            add(b"".join(b"[[p]]\nd = " + e + b"\n" for i in range(n)), {"kind": "many-in-aot", "n": n, "expect": "ok", "must_accept": True})
    # sub-tables of arrays of tables, repeated (every level is an array AND a table: two levels per segment),
    # alone and followed by a dotted key leading to a nested value: the ADDITIVE maximum of all limits
    def aot_chain(n):
        t = b""
        p = []
        for i in range(n):
            p.append(b"k")
            t += b"[[" + b".".join(p) + b"]]\n"
        return t
    for n in [10, 40, 78]:
        add(aot_chain(n), {"kind": "aot-chain", "n": n})
    g4 = [1, 40, 78, 79] if tier == "quick" else [1, 20, 40, 60, 78, 79]
    for nh in [40, 79]:
        for nd in g4:
            for nv in g4:
                for kv in kinds:
                    add(aot_chain(nh) + b"j." * (nd - 1) + b"j = " + shape(kv, nv) + b"\n",
                        {"kind": "aot-chain+dotted+%s" % kv, "n": 2 * nh + nd + nv})
    # ... and products of two value constructs below the additive maximum of header chain and dotted key: anything that lets
    # a VALUE nest deeper than the limit shows up as a total depth beyond the bound
    for ka in kinds:
        for kb in kinds:
            for na, nb in [(39, 39), (40, 40), (77, 2), (2, 77), (77, 79), (78, 79), (79, 77), (60, 60)]:
                add(aot_chain(79) + b"j." * 78 + b"j = " + shape(ka, na, shape(kb, nb)) + b"\n",
                    {"kind": "aot-chain+dotted+%s*%s" % (ka, kb), "n": 2 * 79 + 79 + na + nb})
    if tier != "quick":
        for _ in range(3000):
            ks = [rng.choice(kinds) for _ in range(rng.randrange(2, 5))]
            v = b"1"
            tot = 0
            for k in ks:
                n = rng.choice([1, 2, 3, 10, 30, 50, 78, 79])
                tot += n
                v = shape(k, n, v)
            add(dotted(rng.choice([1, 5, 40, 79])) + b" = " + v + b"\n", {"kind": "random-product", "n": tot})
    return out


def _fields(line):
    return dict(p.split("=", 1) for p in line.split(" ")[1:] if "=" in p)


# known finding C05-additive-depth-unoptimized-stack: the limits bound each construct separately, so a document may
# legally reach depth 2*79 (chained [[..]] headers) + 79 (dotted key) + 79 (value nesting) = 316; in an UNOPTIMISED
# build its consumers need more than 2 MiB.  Classifier: the unoptimised build, and the document's measured depth
# (taken from the release build's observation of the same case) exceeds KNOWN_DEPTH.
KNOWN_DEPTH = 2 * LIMIT + 80


def known_class(case, line):
    # meta["cur_build"] is set by extra_select while an extra build is being judged; the main pass leaves it unset
    if line and line.startswith("CRASH") and case.meta.get("depth_seen", 0) > KNOWN_DEPTH and case.meta.get("cur_build") == "dbg0":
        return "C05-additive-depth-unoptimized-stack"
    return None


def extra_select(case, name):
    case.meta["cur_build"] = name
    return True


def oracle(case, line):
    m = case.meta
    v = line.split(" ", 1)[0]
    f = _fields(line)
    if v == "ok" and "depth" in f:
        m["depth_seen"] = max(m.get("depth_seen", 0), int(f["depth"]))
    if v == "ok":
        d = int(f.get("depth", "0"))
        if d > DEPTH_BOUND:
            return "accepted with nesting depth %d > bound %d" % (d, DEPTH_BOUND)
        if f.get("consumers") != "survived" or f.get("same_print") != "yes":
            return "a consumer misbehaved: %s" % line
        if f.get("toml") != "ok" or f.get("edit_de") != "ok":
            return "serde front end rejects a document the parser accepts: %s" % line
        if m.get("expect") == "recursion":
            return "nesting %d >= limit accepted" % m["n"]
        return None
    if v == "err":
        if m.get("must_accept"):
            return "a document nested below the limit in a single construct was rejected"
        if f.get("toml") != "err":
            return "serde front end accepts a document the parser rejects"
        return None
    return "unexpected observation: %s" % line[:100]


def compare(case, model_line, impl_line):
    return None if model_line == impl_line else "verdict / depth / error kind differ"


def nontrivial(case, line):
    return case.meta.get("n", 0) >= 10


def extra_coverage(cases, impl, model):
    md = 0
    for l in impl:
        if l and l.startswith("ok depth="):
            md = max(md, int(l.split("depth=")[1].split(" ")[0]))
    return {"max_depth_accepted": md, "depth_bound": DEPTH_BOUND}


def search(rng, ctx):
    return gen_cases(rng, "thorough")
