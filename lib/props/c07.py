"""C07 — Serde serialization never loses data: it round-trips or returns an error.

Cases
  fidelity <n>           harness self-check, run FIRST on every check: ~36 families of real
                         `#[derive(Serialize, Deserialize)]` types against their runtime-typed twin
                         (`dynserde`): same serializer call tree, same bytes / trees / error messages on
                         all 7 encoding routes, same results and error messages on all 11 decoding routes
                         for ~1000 texts per family.  `fidelity=BAD` is a HARNESS bug, reported as
                         "harness fidelity broken", never as a finding about the library.
  ser <type> <value>     the 7 encoding routes (tp = toml::to_string, tpp = toml::to_string_pretty,
                         ep / epp = toml_edit::ser::to_string{,_pretty}, doc = toml_edit::ser::to_document,
                         val = toml::Value::try_from, tab = toml::Table::try_from): `err(kind)` or
                         `ok:<text or tree>` followed by the value decoded back from that very output as
                         the SAME type (T = toml::from_str, E = toml_edit::de::from_str, D = from_document,
                         V = Value/Table::try_into): `=` (dump identical), a dump, or ERR.

The ORACLE looks at the implementation's line only and uses its own definitions (lib/gen_serde.py):
  * `unsupported_kinds(ty, v, route)`: the documented unsupported shapes, obtained by reading the
    serializers — None or unit anywhere but directly in a struct field / map entry (in particular inside a
    sequence, tuple, newtype or variant payload), unit structs, map keys that are not strings / unit variants
    (newtypes of those), u64 beyond i64, ANY i128/u128 (serde's default `serialize_i128` refuses them
    wholesale, loudly — coordinator decision S5), a non-table at the document root, a struct variant directly
    at the root of toml::to_string, non-map roots for Table::try_from.  An error is accepted only if its kind
    is in that set; when the set is empty the route must succeed (C07_supported).
  * `sval_eq`: equality except NaN == NaN with the sign ignored, f32 compared as f32, maps unordered.
  * every successful output must be valid TOML (the harness re-parses it; this module re-parses a sample
    with python's own `tomllib`) and decode back to an `sval_eq` value through every matching decoder.

Duplicate-key family (kind `dup-key`, gen_serde.dup_key_case; OUTSIDE has_type, so no theorem speaks about it): a map
written from a list of pairs that repeats a key (an ordered multi-map through `collect_map`, a struct field colliding
with a `#[serde(flatten)]` map).  Every route must keep the LAST value of the repeated key (IndexMap::insert /
BTreeMap::insert) and read back the last-wins map (gen_serde.last_wins).

Outside has_type (counted in the evidence as `excluded_types`, never generated into cases):
`Option<Option<_>>` and maps whose values are Options (a `None` map value is dropped by design and cannot be
told from an absent entry — coordinator decision S4).  Maps whose stringified keys collide are not generated
(keys of one map are pairwise distinct and of one type).

Nested-None family (kind `nested-none:<shape>`, gen_serde.nested_none_case): a None that is not handed directly to a
struct field / map entry but sits below one — in a sequence, behind Some (Option<Option<_>>), in a newtype, a tuple, a
tuple struct, a newtype / tuple variant's payload, in a sequence inside a map — at the root struct or up to two containers
deep; plus the control shapes (None directly in a field of a struct, struct variant, nested struct: left out and read
back).  Every one of the 7 routes must answer unsupported-none on the former and succeed on the latter.

Known classes (genuine defects recorded, not repaired; `known_class` returns the id):
  (repaired in /repo, no longer accepted as a class; the former witnesses stay in the fixed cases as regression cases:
     C07-tryfrom-nested-none-dropped   toml::Value::try_from / toml::Table::try_from: `SerializeMap::serialize_value`
        (toml/src/value.rs) swallowed ANY UnsupportedNone coming out of a field's value, not only a direct None:
        V{v: Some(vec![Some(1), None])} -> Ok(Table{}) where the other five routes answer Err(UnsupportedNone).  Now only a
        None handed directly to the field's serializer leaves the entry out, as toml_edit's MapValueSerializer does.)
  private-datetime-key (F14)        the case spells one of the private in-band names of the serde tunnels
        (`$__toml_private_datetime`, `$__serde_spanned_private_*`) or puts a Datetime at the root of Table::try_from, which
        answers the table { "$__toml_private_datetime" = ".." } instead of refusing (S6; value.rs
        TableSerializer::serialize_struct).  (toml::to_string / to_string_pretty did the same until the repair of
        C06-root-datetime-printed-as-table and refuse a root date-time now, like toml_edit::ser::to_string.)
"""
import collections, tomllib

import gen_serde as G
from runner import Case

PROP = "C07"
TITLE = "Serde serialization never loses data: it round-trips or returns an error"
COQ_PROPS = "Props/C07.v"
COQ_PROPS_EXTRA = ["Props/C07text.v"]
DRIVER_NAME = "serde"
HARNESS = {"bin": "serde"}
THEOREMS = [
    "level: the TOML value tree (Spec/SerdeData.v tomlval); text printing/parsing of a tree is C03/C06/C10/C11/C12",
    "C07_roundtrip_value: forall ty v out, has_type v ty -> ser_value ty v = Ok out -> exists v', de_value ty out = Ok v' /\\ sval_eq v v'  (toml_edit ValueSerializer / ValueDeserializer)",
    "C07_errors_documented: has_type v ty -> ser_value ty v = Err e -> unsupported CElem ty v e",
    "C07_supported / C07_unsupported_refused / C07_ok_iff_supported: ser_value succeeds exactly on the values without a documented unsupported shape",
    "C07_edit_{roundtrip,errors,supported}: document root of toml_edit::ser::{to_string,to_string_pretty,to_document} (error only for an unsupported shape or a root that is not table-shaped)",
    "C07_toml_{roundtrip,errors,supported}: document root of toml::{to_string,to_string_pretty} (additionally: struct variant at the root refused by name, tuple variant at the root refused as non-table)",
    "C07_tryfrom_roundtrip / C07_table_tryfrom_roundtrip: forall ty v out, has_type v ty -> doc_keys ty = true -> tv_ser ty v = Ok out (resp. tv_ser_table) -> exists v', tv_de ty out = Ok v' /\\ sval_eq v v'  (toml::Value::try_from / Table::try_from read back by try_into; doc_keys: no map key type is char / Option<_>, which only try_from accepts as keys)",
    "C07_tryfrom_ok_iff_supported / C07_table_tryfrom_supported / C07_tryfrom_errors: under doc_keys Value::try_from accepts exactly the values without a documented unsupported shape (the verdict of the text routes), Table::try_from no more than those; a try_from error implies some unsupported shape",
    "C07_tryfrom_supported_roundtrip / C07_table_tryfrom_supported_roundtrip: for every type, a value without any unsupported shape is accepted by try_from and read back",
    "C07_tryfrom_nested_none_refused / C07_tryfrom_direct_none_skipped / C07_tryfrom_nested_none_shapes: the former witnesses of the repaired C07-tryfrom-nested-none-dropped are refused with UnsupportedNone by try_from as by ValueSerializer; a None directly in a field is left out; Some(None), newtype / tuple / variant payload / map-nested None are refused",
]
RULE = ("random types of depth <= 5 over the whole type language (structs, maps with string / unit-variant / newtype keys, "
        "sequences, tuples, newtypes, tuple structs, options, all four variant kinds, every integer width, f32/f64, chars, "
        "strings, date-times, untyped toml::Value leaves, unit / unit structs / non-string keys / 128-bit integers as unsupported "
        "shapes) x adversarial values; each pair through all 7 encoding routes and back; plus the duplicate-key family (maps written "
        "from pair lists that repeat a key: all routes keep the last value) and the nested-None family (a None below a field in "
        "each of 11 positions, 3 control shapes: all routes refuse / leave out alike); non-trivial = type depth >= 2")
ASSUMPTIONS = [
    "serde_derive / serde's std impls (which Serializer / Deserializer method is called for each shape, Option fields skipped on None, missing field => None, first-match field and variant identifiers) are written into coq/Model/Ser.v, De.v as their functional spec; the same protocol is the runtime-typed driver `dynserde`, checked on every run against ~36 families of real derived types (command `fidelity`)",
    "has_type excludes: maps whose value type is an Option (S4), maps whose stringified keys collide, structs named like the private tunnels, duplicate field / variant names, date-times outside the ranges the date-time parser accepts (C12 in_range); Option<Option<_>> is NOT excluded by the Coq theorems (the generator excludes it)",
    "128-bit integers count as a documented unsupported shape (always refused, never silently altered)",
    "the duplicate-key family (a key repeated in one serialized map) is outside has_type: it is judged by the oracle (last value wins on every route) and tied to the model (whose tables are insert-replace lists), but no theorem speaks about it",
    "`v as f32` (hardware round-to-nearest-even) is given by its functional spec Model/De.v narrow32; indexmap / BTreeMap by ordered association lists with insert-replace / sorted-insert",
    "the Coq universe has no untyped toml::Value leaf and no Spanned<T>: such cases are run through the oracle only (model prints `-`)",
    "deserialization error messages are not modelled (one error value); reading an integer as a float and a date-time as a map/struct are marked unmodelled (no serializer output has these shapes at those types)",
]

ROUTES = ["tp", "tpp", "ep", "epp", "doc", "val", "tab"]
N_FIDELITY = 37

# F6 (repaired in /repo, commit 7e06b65): toml_edit::ser::to_string_pretty turned v = ["U", { B = { inner = 1 } }] into v = ["U", {}]
F6_TY = ("S", "S", [("v", ("L", ("E", "E", [("U", "u", None), ("B", "s", [("inner", ("int", "i32"))])])))])
F6_VAL = ("R", [("L", [("E", 0, ("U",)), ("E", 1, ("R", [("I", 1)]))])])
# S3 witnesses (C07-tryfrom-nested-none-dropped, repaired in /repo): regression cases
S3_TY = ("S", "V", [("v", ("O", ("L", ("O", ("int", "i32")))))])
S3_VAL = ("R", [("O", ("L", [("O", ("I", 1)), ("N",)]))])
S3B_TY = ("S", "V", [("a", ("int", "i32")), ("v", ("L", ("O", ("int", "i32"))))])
S3B_VAL = ("R", [("I", 1), ("L", [("N",)])])

STATS = collections.Counter()


def ser_case(ty, v, kind):
    return Case("ser", [G.ty_str(ty).encode(), G.val_str(v).encode()], {"kind": kind, "ty": ty, "v": v, "depth": G.ty_depth(ty)})


def fixed_cases():
    out = [Case("fidelity", [str(i).encode()], {"kind": "fidelity"}) for i in range(N_FIDELITY)]
    out.append(Case("consts", [], {"kind": "consts"}))
    out.append(ser_case(F6_TY, F6_VAL, "F6-witness"))
    out.append(ser_case(S3_TY, S3_VAL, "S3-witness"))
    out.append(ser_case(S3B_TY, S3B_VAL, "S3-witness"))
    # a date-time at the ROOT (the witness of the repaired C06-root-datetime-printed-as-table): refused as a non-table by
    # all five document routes, Value::try_from yields the date-time (Table::try_from: known class private-datetime-key)
    dt = ("X", "1979-05-27T07:32:00Z")
    out.append(ser_case(("dt",), dt, "root-datetime"))
    out.append(ser_case(("da",), ("X", "1979-05-27"), "root-datetime"))
    out.append(ser_case(("ti",), ("X", "07:32:00.5"), "root-datetime"))
    out.append(ser_case(("O", ("dt",)), ("O", dt), "root-datetime"))
    out.append(ser_case(("N", "W", ("dt",)), ("W", dt), "root-datetime"))
    out.append(ser_case(("v",), ("V", ("X", "1979-05-27T07:32:00Z")), "root-datetime"))
    out.append(ser_case(("N", "W", ("O", ("v",))), ("W", ("O", ("V", ("X", "1979-05-27")))), "root-datetime"))
    out.append(ser_case(("S", "S", [("$__toml_private_datetime", ("s",))]), ("R", [("S", "1979-05-27")]), "private-field"))
    out.append(ser_case(("S", "S", [("$__toml_private_datetime", ("s",))]), ("R", [("S", "x")]), "private-field"))
    return out


def gen_cases(rng, tier):
    out = fixed_cases()
    n_types = 3000 if tier == "quick" else 60000
    per = 10
    g = G.SerdeGen(rng, max_depth=5, allow_unsupported=True)
    gs = G.SerdeGen(rng, max_depth=5, allow_unsupported=False)
    gx = G.SerdeGen(rng, max_depth=4, allow_unsupported=True, allow_excluded=True)
    for i in range(n_types):
        gen = g if i % 3 else gs
        ty = gen.root_ty() if i % 5 else gen.ty()
        for _ in range(per):
            out.append(ser_case(ty, gen.value(ty), "random" if gen is g else "random-supported"))
    # the duplicate-key family (outside has_type): a map written from a pair list that repeats a key; every route must
    # keep the LAST value of a repeated key and read back the last-wins map
    for _ in range(400 if tier == "quick" else 6000):
        ty, v = G.dup_key_case(rng)
        out.append(ser_case(ty, v, "dup-key"))
    # the nested-None family: every shape a None can hide in below a field, on all 7 routes
    for i in range(700 if tier == "quick" else 14000):
        ty, v, shape = G.nested_none_case(rng, G.NESTED_NONE_SHAPES[i % len(G.NESTED_NONE_SHAPES)])
        out.append(ser_case(ty, v, "nested-none:" + shape))
    # how often the exclusion bites on an unrestricted generator (evidence only)
    STATS["excluded_types"] = sum(1 for _ in range(2000) if G.excluded_type(gx.ty()))
    STATS["excluded_types_out_of"] = 2000
    return out


def parse_ser_line(line):
    """-> {route: ("err", kind) | ("ok", payload, [(tag, "=" | ("dump", s) | ("ERR", msg))], invalid, tree, lay)}
    tree / lay: the value tree / the layout (which tables are [headers], which arrays [[arrays of tables]]) of a
    text / document output as the harness re-read it (tags `tree`, `lay`, used by the correspondence with the
    Coq model only; the oracle does not look at them)"""
    res = {}
    for part in line.split(" "):
        name, _, rest = part.partition("=")
        if rest.startswith("err("):
            res[name] = ("err", rest[4:-1])
        elif rest.startswith("ok:"):
            fs = rest[3:].split(";")
            rts, invalid, tree, lay = [], False, None, None
            for f in fs[1:]:
                if f == "INVALID":
                    invalid = True
                    continue
                tag, _, x = f.partition(":")
                if tag == "tree":
                    tree = x
                    continue
                if tag == "lay":
                    lay = x
                    continue
                if x == "=":
                    rts.append((tag, "="))
                elif x.startswith("ERR:"):
                    rts.append((tag, ("ERR", bytes.fromhex(x[4:]).decode("utf-8", "replace") if x[4:] != "-" else "")))
                else:
                    rts.append((tag, ("dump", x)))
            res[name] = ("ok", fs[0], rts, invalid, tree, lay)
        else:
            res[name] = ("?", rest)
    return res


TOMLLIB_BUDGET = [4000]


def python_says_invalid(hextext):
    """independent validity check with python's tomllib on a sample; leap seconds (`:60`) are a
    known limitation of python's datetime, not of TOML"""
    if TOMLLIB_BUDGET[0] <= 0:
        return False
    TOMLLIB_BUDGET[0] -= 1
    text = bytes.fromhex(hextext).decode("utf-8") if hextext != "-" else ""
    try:
        tomllib.loads(text)
        return False
    except Exception as e:
        if ":60" in text or "Invalid date or datetime" in str(e):
            return False  # python's datetime has no year 0 and no leap second
        return "tomllib rejects it: %s" % e


def root_is_datetime(ty, v):
    while ty[0] in ("N", "O") and v[0] in ("W", "O"):
        ty, v = (ty[2] if ty[0] == "N" else ty[1]), v[1]
    return ty[0] in ("dt", "da", "ti") or (ty[0] == "v" and v[0] == "V" and v[1][0] == "X")


def judge(case, line):
    """-> list of (reason, known class or None)"""
    if case.cmd == "fidelity":
        if line.startswith("fidelity=ok") or line == "fidelity=none":
            return []
        detail = line.split("detail=")[-1]
        try:
            detail = bytes.fromhex(detail).decode("utf-8", "replace")
        except ValueError:
            pass
        return [("harness fidelity broken (dynserde disagrees with a real derived type — a HARNESS bug, not a finding): %s" % detail[:600], None)]
    if case.cmd == "consts":
        return []
    if line.startswith("BADCASE") or "err(BADCASE)" in line:
        return [("generator/harness bug: %s" % line[:200], None)]
    ty, v = case.meta["ty"], case.meta["v"]
    res = parse_ser_line(line)
    out = []
    # what the value denotes: for the duplicate-key family the last value of a repeated key (elsewhere: v itself)
    v_denoted = G.last_wins(v) if case.meta.get("kind") == "dup-key" else v
    private = G.mentions_private(ty, v)
    for r in ROUTES:
        x = res.get(r)
        if x is None or x[0] == "?":
            out.append(("route %s missing in %r" % (r, line[:120]), None))
            continue
        allowed = G.unsupported_kinds(ty, v, r)
        root_dt = root_is_datetime(ty, v)
        if x[0] == "err":
            STATS["err:" + x[1]] += 1
            if x[1] not in allowed:
                cls = "private-datetime-key" if private else None
                out.append(("route %s: error %s outside the documented unsupported shapes (allowed here: %s)"
                            % (r, x[1], sorted(allowed) or "none"), cls))
            continue
        STATS["ok:" + r] += 1
        cls = None
        if private or (root_dt and r == "tab"):
            cls = "private-datetime-key"
        # a documented unsupported shape must be REFUSED (C07_unsupported_refused / C07_toml_errors /
        # C07_tryfrom_ok_iff_supported): a success here means something was silently dropped or rewritten
        if allowed and cls is None and case.meta.get("kind") != "dup-key":
            out.append(("route %s succeeds although the value has the documented unsupported shape(s) %s" % (r, sorted(allowed)), None))
            continue
        _, payload, rts, invalid, _tree, _lay = x
        if invalid:
            out.append(("route %s: output is not valid TOML: %r" % (r, bytes.fromhex(payload).decode("utf-8", "replace") if payload != "-" else ""), cls))
            continue
        if r in ("tp", "tpp", "ep", "epp") and case.meta.get("kind") != "random-supported" or r == "tp":
            why = python_says_invalid(payload) if r not in ("val", "tab", "doc") else False
            if why:
                out.append(("route %s: %s" % (r, why), cls))
        if not rts:
            out.append(("route %s: no round trip reported" % r, None))
        for tag, rt in rts:
            if rt == "=":
                if v_denoted is not v and G.has_dup_keys(v):
                    out.append(("route %s: the value read back (%s) still has the repeated key" % (r, tag), cls))
                continue
            if rt[0] == "ERR":
                out.append(("route %s succeeded but its output does not decode back (%s): %s" % (r, tag, rt[1][:200]), cls))
            else:
                back = G.parse_val(rt[1])
                if not G.sval_eq(v_denoted, back):
                    out.append(("route %s succeeded but the value read back (%s) differs: %s" % (r, tag, rt[1][:300]), cls))
                else:
                    STATS["eq-modulo-nan-or-order"] += 1
    return out


def oracle(case, line):
    js = judge(case, line)
    if not js:
        return None
    for why, cls in js:
        if cls is None:
            return why
    return js[0][0]


def known_class(case, line):
    js = judge(case, line)
    if js and all(cls for _, cls in js):
        return js[0][1]
    return None


def nontrivial(case, line):
    return case.cmd == "ser" and case.meta.get("depth", 0) >= 2


def tv_eq_ordered(a, b):
    """toml::Value trees with the SAME key order (BTreeMap iteration order of toml::Table); NaN == NaN"""
    if a[0] != b[0]:
        return False
    k = a[0]
    if k == "D":
        return G.f64_eq(a[1], b[1])
    if k == "L":
        return len(a[1]) == len(b[1]) and all(tv_eq_ordered(x, y) for x, y in zip(a[1], b[1]))
    if k == "T":
        return len(a[1]) == len(b[1]) and all(ka == kb and tv_eq_ordered(x, y) for (ka, x), (kb, y) in zip(a[1], b[1]))
    return a[1] == b[1]


def parse_lay(s):
    """layout tokens -> (kind, payload): leaves as in gen_serde.parse_tv; L / A lists; T / H tables"""
    t = s.split(",")
    pos = [0]

    def go():
        tok = t[pos[0]]
        pos[0] += 1
        h, r = tok[0], tok[1:]
        if h in ("L", "A"):
            return (h, [go() for _ in range(int(r))])
        if h in ("T", "H"):
            es = []
            for _ in range(int(r)):
                k = t[pos[0]]
                pos[0] += 1
                es.append((k[1:], go()))
            return (h, es)
        if h == "D":
            return ("D", int(r, 16))
        return (h, r)

    x = go()
    if pos[0] != len(t):
        raise ValueError("trailing layout tokens")
    return x


def lay_eq(a, b):
    """same layout: same kinds everywhere, arrays in order, tables as sets of entries, NaN == NaN"""
    if a[0] != b[0]:
        return False
    k = a[0]
    if k == "D":
        return G.f64_eq(a[1], b[1])
    if k in ("L", "A"):
        return len(a[1]) == len(b[1]) and all(lay_eq(x, y) for x, y in zip(a[1], b[1]))
    if k in ("T", "H"):
        da, db = dict(a[1]), dict(b[1])
        if len(da) != len(a[1]) or len(db) != len(b[1]) or set(da) != set(db):
            return False
        return all(lay_eq(da[x], db[x]) for x in da)
    return a[1] == b[1]


def compare(case, model_line, impl_line):
    """the correspondence between the Coq model (coq/Model/Ser.v, De.v through coq/Extract/Cmd_serde.v) and the
    implementation, on the level of the VALUE TREE: per route the same outcome (error kind, or a tree equal to
    the one the implementation's output denotes — exact key order for toml::Value / toml::Table, any order for
    documents, whose printer moves sub-tables behind values), and the same result of reading that tree back
    (error / value).  The Coq model prints `-` for what it does not cover."""
    if model_line is None or model_line == "-":
        return None
    if case.cmd == "consts":
        return None if model_line == impl_line else "the reserved names assumed by the model differ from the crates': %s / %s" % (model_line, impl_line)
    if case.cmd != "ser":
        return None
    if impl_line.startswith("BADCASE") or model_line.startswith("BADCASE"):
        return None if impl_line.startswith("BADCASE") and model_line.startswith("BADCASE") else "model %s, implementation %s" % (model_line[:60], impl_line[:60])
    m, i = parse_model(model_line), parse_ser_line(impl_line)
    v = case.meta["v"]
    for r in ROUTES:
        a, b = m.get(r), i.get(r)
        if a is None:
            return "route %s missing in the model line" % r
        if b is None or b[0] == "?":
            return "route %s missing" % r
        if a[0] != b[0]:
            return "route %s: model %s, implementation %s" % (r, a[0] + ("(%s)" % a[1] if a[0] == "err" else ""), b[0] + ("(%s)" % b[1] if b[0] == "err" else ""))
        if a[0] == "err":
            if a[1] != b[1]:
                return "route %s: model err(%s), implementation err(%s)" % (r, a[1], b[1])
            continue
        # same tree
        itree = b[1] if r in ("val", "tab") else b[4]
        if itree is None:
            STATS["cmp:no-impl-tree"] += 1
        else:
            try:
                mt, it = G.parse_tv(a[1]), G.parse_tv(itree)
            except Exception as e:
                return "route %s: unreadable tree (%s)" % (r, e)
            same = tv_eq_ordered(mt, it) if r in ("val", "tab") else G.tv_eq(mt, it)
            if not same:
                return "route %s: model tree %s, implementation %s" % (r, a[1][:300], itree[:300])
            STATS["cmp:tree"] += 1
        # same layout of the document (root conversion, Pretty / DocumentFormatter: coq/Model/SerFmt.v)
        if a[3] is not None and len(b) > 5 and b[5] is not None:
            try:
                ml, il = parse_lay(a[3]), parse_lay(b[5])
            except Exception as e:
                return "route %s: unreadable layout (%s)" % (r, e)
            if not lay_eq(ml, il):
                return "route %s: model layout %s, implementation %s" % (r, a[3][:300], b[5][:300])
            STATS["cmp:layout"] += 1
        # same result of reading it back
        mrt = a[2]
        if mrt is None or mrt == "UNMODELLED":
            STATS["cmp:rt-unmodelled"] += 1
            continue
        for tag, rt in b[2]:
            iok = not (rt != "=" and rt[0] == "ERR")
            mok = mrt != "ERR"
            if iok != mok:
                return "route %s: reading the output back (%s): model %s, implementation %s" % (r, tag, "ok" if mok else "error", "ok" if iok else "error: " + rt[1][:100])
            if iok:
                iv = v if rt == "=" else G.parse_val(rt[1])
                if not G.sval_eq(G.parse_val(mrt), iv):
                    return "route %s: value read back (%s): model %s, implementation %s" % (r, tag, mrt[:300], "=" if rt == "=" else rt[1][:300])
            STATS["cmp:rt"] += 1
    return None


def parse_model(line):
    """-> {route: ("err", kind) | ("ok", tree, readback, layout)}"""
    res = {}
    for part in line.split(" "):
        name, _, rest = part.partition("=")
        if rest.startswith("err("):
            res[name] = ("err", rest[4:-1])
        elif rest.startswith("ok:"):
            fs = rest[3:].split(";")
            rt, lay = None, None
            for f in fs[1:]:
                if f.startswith("rt:"):
                    rt = f[3:]
                elif f.startswith("lay:"):
                    lay = f[4:]
            res[name] = ("ok", fs[0], rt, lay)
    return res


def extra_coverage(cases, impl, model):
    tied = sum(1 for m in model if m not in (None, "-"))
    depth = collections.Counter(c.meta.get("depth", 0) for c in cases if c.cmd == "ser")
    typed = sum(1 for m in model if m and m.endswith(" typed=1"))
    untyped = sum(1 for m in model if m and m.endswith(" typed=0"))
    return {"route_outcomes": dict(STATS), "model_tied_cases": tied, "model_not_modelled": sum(1 for m in model if m == "-"),
            "model_cases_inside_has_type": typed, "model_cases_outside_has_type": untyped,
            "type_depth_histogram": dict(depth), "fidelity_families": N_FIDELITY - 1}


def shrink(case, il, why, run):
    return case, il, why


# =====================================================================================================================
# C07 through real bytes — appended by eng-c06 (Props/C07text.v, Model/SerDoc.v); nothing above this line is changed.
# The model's BYTES for the four text routes (Extract/Cmd_c07text.v `text`, its own driver driver/driver_c07text)
# against the bytes the crates print (harness `ser`: the payload of tp / tpp / ep / epp), on supported cases of a fixed
# seed, evaluated on every run as an obligation.  std's float printing is an oracle (DESIGN.md 4.4): the model prints a
# float as the marker NUL 'F' <16 hex digits of the f64 pattern> NUL, which is replaced here by the text the
# implementation side prints for that pattern (lib/props/c06.py float_text: Python's shortest-digits repr with Rust's
# tie rule, the same resolution C06 uses).
# =====================================================================================================================
TEXT_BYTES = {"cases": 0, "texts_compared": 0, "floats_resolved": 0, "refused_alike": 0, "not_modelled": 0}
_TEXT_ROUTES = ("tp", "tpp", "ep", "epp")


def _text_cases():
    import random
    rng = random.Random(20260929)
    gs = G.SerdeGen(rng, max_depth=5, allow_unsupported=False)
    out = [(G.ty_str(F6_TY), G.val_str(F6_VAL))]
    for i in range(500):
        ty = gs.root_ty() if i % 5 else gs.ty()
        for _ in range(3):
            out.append((G.ty_str(ty), G.val_str(gs.value(ty))))
    return out


def _text_obligation():
    import re, common, c06
    harness = (globals().get("BINS") or {}).get("main")
    if not harness:
        return [("text-bytes", "harness not built")]
    with common.build_lock():
        rd = common.build_driver("c07text")
    if not rd.ok:
        return [("text-bytes", "driver_c07text not built: %s" % rd.detail)]
    cases = _text_cases()
    args = [[t.encode(), v.encode()] for t, v in cases]
    impl = common.run_lines(harness, [common.case_line("ser", a) for a in args])
    model = common.run_lines(common.driver_bin("c07text"), [common.case_line("text", a) for a in args])
    marker = re.compile(rb"\x00F([0-9a-f]{16})\x00")

    def resolve(m):
        TEXT_BYTES["floats_resolved"] += 1
        return c06.float_text(int(m.group(1), 16)).encode()

    for (t, v), ml, il in zip(cases, model, impl):
        TEXT_BYTES["cases"] += 1
        ml = (ml or "").strip()
        if ml == "-":
            TEXT_BYTES["not_modelled"] += 1
            continue
        mf = dict(p.split("=", 1) for p in ml.split(" ") if "=" in p)
        routes = parse_ser_line(il or "")
        for r in _TEXT_ROUTES:
            if r not in mf or r not in routes:
                return [("text-bytes", "route %s missing for ser %s %s (model %r)" % (r, t, v, ml[:80]))]
            a, b = mf[r], routes[r]
            if a == "x" or b[0] != "ok":
                if not (a == "x" and b[0] == "err"):
                    return [("text-bytes", "route %s: model %s, implementation %s for ser %s %s"
                             % (r, "error" if a == "x" else "text", b[0], t, v))]
                TEXT_BYTES["refused_alike"] += 1
                continue
            mt = marker.sub(resolve, bytes.fromhex(a) if a != "-" else b"")
            it = bytes.fromhex(b[1]) if b[1] != "-" else b""
            TEXT_BYTES["texts_compared"] += 1
            if mt != it:
                return [("text-bytes", "route %s: the model prints %r, the implementation %r for ser %s %s" % (r, mt[:300], it[:300], t, v))]
    if TEXT_BYTES["texts_compared"] < 1000:
        return [("text-bytes", "only %d texts compared" % TEXT_BYTES["texts_compared"])]
    return []


_obligations_before_text = globals().get("obligations")


def obligations():
    out = list(_obligations_before_text()) if _obligations_before_text else []
    return out + _text_obligation()


_extra_coverage_before_text = extra_coverage


def extra_coverage(cases, impl, model):
    d = _extra_coverage_before_text(cases, impl, model)
    d["text_bytes_model_vs_implementation"] = dict(TEXT_BYTES)
    return d
