"""C17 — Serialization is deterministic, canonical and insensitive to map order.

A case is `val <ord> <tree>`: a toml::Value tree description (root = a table) and the map
configuration it is built in: ord `s` = toml::Map is a BTreeMap (default build), ord `i` = IndexMap
(feature preserve_order, harness feature `po`): the insertion order is the order of the description.

  value := 'L' desc ';' | 'A' value* ']' | 'T' ( 'K' hexkey ';' value )* '}'
  desc  := 'i' decimal | 'bt' | 'bf' | 'f' <16 hex digits: f64 bits> | 's' hex(utf8) | 'd' hex(date-time text)

The harness (harness/src/bin/c17.rs) builds the real toml::Value, prints it with to_string,
to_string_pretty, Display for Table and Display for Value, reads the SECTION STRUCTURE off the text
(headers, key names and the shape of every value, in order of appearance), decodes the text again, and
prints

  vdoc=<doc> pdoc=<doc> tdoc=<doc> sdoc=<doc> vdisp=<shape> edisp=<shape>,.. rb=<value> fix=.. pp=.. dec=.. tfix=.. sdec=.. s2fix=.. det=.. # text=<hex> ptext=<hex> ttext=<hex> stext=<hex>

(vdisp: the text of `Display for toml::Value` on the whole value, read back as a toml_edit value; edisp: the same for every
entry of the root table taken by itself, `table["k"].to_string()`, in the map's order.  A root that is NOT a table — a lone
string / integer / float / boolean / date-time / array — has no document: the line is `not-a-table:<ok|err> vdisp=<shape>`,
where err is the verdict of toml::to_string (a document is a table) and vdisp must be the value itself: this is where the
repaired defect C06-root-datetime-printed-as-table showed — Display of Value::Datetime printed the table
{ "$__toml_private_datetime" = ".." } and to_string wrote it as a document.)

(sdoc / sdec / s2fix / stext: the same tree serialized by a wrapper that, like a derived struct or a plain map,
hands every container's entries over in the container's own order at every level — no three loops anywhere)

The model (coq/Extract/Cmd_c17.v over Model/TomlValue.v) prints everything before ` # ` from the
description alone; that part must be identical (correspondence).  The three texts after ` # ` are for
the oracle only.

The ORACLE looks at the implementation's line only:
  * det / fix / pp / dec / tfix must be `ok` (same text twice; one-step fixed point; plain and pretty
    decode to equal values; the text decodes to v; parse-print-parse-print of a Table is stable);
  * each of the three texts is decoded by an independent TOML reader (python's tomllib) and must give
    exactly the described value (up to map order);
  * in each of the three section structures no [table] is opened again after one of its sub-sections
    (values before tables), no header or key occurs twice in one table, and every section lists all the
    values of its table (and nothing that is not a key of it).

`txt <text>`: a valid document is parsed as toml::Table, printed, parsed and printed again: both prints
must be equal and tomllib must read the print back as the value tomllib reads from the source
(implementation only; the model answers `skip`).

`canon <type> <value> <s|i>`: a value of a DERIVED type (lib/gen_serde.py; answered by the runtime-typed serde
harness `harness/src/bin/serde`, command `canon`, in the build named by the third argument): the same text
twice; plain / pretty / toml_edit outputs decode to equal values; the text parsed as toml::Table prints the
same twice; re-reading the text as toml::Value and printing it gives the same text, or — when the type's field
order is not the order a toml::Value iterates in (BTreeMap: sorted; IndexMap: plain values, arrays holding
tables, tables) — a text that decodes to the same value (counted as `derived_reordered`; the exact one-step
fixed point for a derived type is reading back AT THE SAME TYPE, which is the round trip of C07).
Implementation only: the model of the derive family is C07's.

The build without `preserve_order` answers `skip` for ord `i`; compare and oracle then substitute the
answer of the `po` build (one lazy batch), so those cases count like all others."""
import itertools, math, struct, tomllib
import common
import gen_toml as G
import gen_serde as GS
from runner import Case

PROP = "C17"
TITLE = "Serialization is deterministic, canonical and insensitive to map order"
COQ_PROPS = "Props/C17.v"
DRIVER_NAME = "c17"
HARNESS = {"bin": "c17"}
EXTRA_HARNESS = {"po": ("release", ("po",))}
EXTRA_ORACLE = []          # ord `i` cases are routed to the po build by _impl() below
THEOREMS = []              # filled at the end of the file
RULE = ("toml::Value trees of depth <= 5 whose keys make sorted and insertion order interleave scalars, plain arrays, "
        "mixed arrays, arrays of tables and tables (empty tables, tables holding only sub-tables, arrays of empty tables, "
        "arrays of tables inside arrays, keys that need quoting, multi-line strings), each under BTreeMap and under IndexMap, "
        "each printed by to_string, to_string_pretty, Display for Table, Display for Value and by a serializer that keeps the "
        "container's own order at every level (struct-like); ALL entry-kind sequences of length <= 3 (quick) / <= 4 (thorough) "
        "over 9 entry kinds in every key order, at the root, inside a table and inside an array of tables; random valid "
        "documents for parse-print-parse-print; random values of derived types (gen_serde) through the runtime-typed serde "
        "harness in both builds; non-trivial = some table lists a sub-table or array of tables before one of its values in "
        "map order (val), >= 3 statements (txt), type depth >= 2 and serializable (derived)")
ASSUMPTIONS = [
    "leaves are opaque tokens in the model (their text round trip is C10/C11/C12); generated leaves avoid NaN",
    "the section structure is read off the text by a line scanner in the harness; each key/value entry is tokenised by the crate's own parser",
    "the independent decoder of the oracle is python's tomllib (TOML 1.0)",
    "a derived Serialize impl is modelled by its functional specification: one serialize_entry per field in declaration order "
    "(ser_plain); on the implementation side by a wrapper with exactly that behaviour (harness Plain) and by the dynserde driver of C07",
    "the one-step fixed point of a derived type is reading back at the same type (C07); re-read as toml::Value the fields are sorted / "
    "regrouped, so only the second print is a fixed point (C17_struct_second_print) — the oracle accepts a reprint that decodes to the same value",
]

# ------------------------------------------------------------------------------------------
# trees: python values; leaves are ('i', n) ('b', bool) ('f', bits) ('s', bytes) ('d', text)
# ------------------------------------------------------------------------------------------


def hx(b):
    return b.hex() if b else "-"


def enc_leaf(l):
    k, x = l
    if k == "i":
        return "i%d" % x
    if k == "b":
        return "bt" if x else "bf"
    if k == "f":
        return "f%016x" % x
    if k == "s":
        return "s" + hx(x)
    if k == "d":
        return "d" + hx(x.encode())
    raise ValueError(l)


def enc(v):
    if isinstance(v, list):
        return "A" + "".join(enc(x) for x in v) + "]"
    if isinstance(v, Tab):
        return "T" + "".join("K%s;%s" % (hx(k), enc(x)) for k, x in v.items) + "}"
    return "L" + enc_leaf(v) + ";"


class Tab:
    """a table: entries in DESCRIPTION order (keys distinct)"""
    __slots__ = ("items",)

    def __init__(self, items=()):
        self.items = list(items)


def dec(s):
    """the inverse of enc on a str"""
    pos = 0

    def val():
        nonlocal pos
        c = s[pos]
        pos += 1
        if c == "L":
            j = s.index(";", pos)
            d = s[pos:j]
            pos = j + 1
            return dec_leaf(d)
        if c == "A":
            out = []
            while s[pos] != "]":
                out.append(val())
            pos += 1
            return out
        if c == "T":
            t = Tab()
            while s[pos] != "}":
                assert s[pos] == "K"
                j = s.index(";", pos)
                k = bytes.fromhex(s[pos + 1:j]) if s[pos + 1:j] != "-" else b""
                pos = j + 1
                t.items.append((k, val()))
            pos += 1
            return t
        raise ValueError(s)
    v = val()
    if pos != len(s):
        raise ValueError(s)
    return v


def dec_leaf(d):
    k, r = d[0], d[1:]
    if k == "i":
        return ("i", int(r))
    if k == "b":
        return ("b", r == "t")
    if k == "f":
        return ("f", int(r, 16))
    if k == "s":
        return ("s", bytes.fromhex(r) if r != "-" else b"")
    if k == "d":
        return ("d", bytes.fromhex(r).decode())
    raise ValueError(d)


def norm_tree(v):
    """order-free canonical form of a described value (what any TOML reader must produce)"""
    if isinstance(v, list):
        return ("A", tuple(norm_tree(x) for x in v))
    if isinstance(v, Tab):
        return ("T", tuple(sorted((k.decode("utf-8"), norm_tree(x)) for k, x in v.items)))
    k, x = v
    if k == "s":
        return ("s", x.decode("utf-8"))
    if k == "d":
        return ("d", repr(tomllib.loads("x = " + x)["x"]))
    return (k, x)


def norm_py(o):
    """the same canonical form from tomllib's result"""
    if isinstance(o, dict):
        return ("T", tuple(sorted((k, norm_py(x)) for k, x in o.items())))
    if isinstance(o, list):
        return ("A", tuple(norm_py(x) for x in o))
    if isinstance(o, bool):
        return ("b", o)
    if isinstance(o, int):
        return ("i", o)
    if isinstance(o, float):
        if math.isnan(o):
            return ("f", "nan")
        return ("f", struct.unpack("<Q", struct.pack("<d", o))[0])
    if isinstance(o, str):
        return ("s", o)
    return ("d", repr(o))


# entry kinds as the serializer distinguishes them
def is_tab(v):
    return isinstance(v, Tab)


def is_aot(v):
    return isinstance(v, list) and len(v) > 0 and all(is_tab(x) for x in v)


def interleaved(v, order):
    """some table lists a sub-table / array of tables before one of its values, in map order"""
    if isinstance(v, list):
        return any(interleaved(x, order) for x in v)
    if not isinstance(v, Tab):
        return False
    items = sorted(v.items) if order == "s" else v.items
    seen_sub = False
    for _, x in items:
        sub = is_tab(x) or is_aot(x)
        if sub:
            seen_sub = True
        elif seen_sub:
            return True
    return any(interleaved(x, order) for _, x in items)


# ------------------------------------------------------------------------------------------
# generators
# ------------------------------------------------------------------------------------------
KEYS = [b"a", b"b", b"c", b"d", b"e", b"f", b"g", b"h", b"k1", b"k2", b"z", b"A", b"Z", b"_", b"-", b"0", b"10", b"9",
        b"", b"a.b", b"a b", "é".encode(), b'"q"', b"'", b"[t]", b"x=y", b"#", b"tbl", b"arr", b"val"]
STRS = [b"", b"x", b"hello world", b"a = 1", b"[t]", b"[[t]]", b"# no comment", b'say "hi"', b"it's", b"back\\slash",
        "é ü".encode(), "\U0001F600".encode(), b"tab\there", b"line1\nline2", b"\n[x]\ny = 1\n", b"'''", b'"""', b"{ a = 1 }",
        b"1979-05-27", b"true", b"1", b"inf"]
DATES = ["1979-05-27T07:32:00Z", "1979-05-27T00:32:00-07:00", "1979-05-27T00:32:00.999999-07:00", "1979-05-27T07:32:00",
         "1979-05-27T00:32:00.5", "1979-05-27", "07:32:00", "00:32:00.25", "2000-02-29T23:59:59.123456789+05:30"]
FLOATS = [0.0, -0.0, 1.0, -1.5, 3.14, 1e10, 1e-7, 6.02e23, 1.7976931348623157e308, 5e-324, float("inf"), float("-inf"), 0.1]


def rand_leaf(rng):
    r = rng.random()
    if r < 0.4:
        return ("i", rng.choice([0, 1, -1, 42, 7, 2 ** 63 - 1, -2 ** 63, rng.randrange(-1000, 1000)]))
    if r < 0.55:
        return ("b", rng.random() < 0.5)
    if r < 0.8:
        return ("s", rng.choice(STRS))
    if r < 0.9:
        return ("f", struct.unpack("<Q", struct.pack("<d", rng.choice(FLOATS)))[0])
    return ("d", rng.choice(DATES))


def rand_keys(rng, n):
    pool = KEYS[:8] if rng.random() < 0.5 else KEYS
    if n > len(pool):
        pool = KEYS
    return rng.sample(pool, n)


def rand_value(rng, depth, kind=None):
    """kind: leaf | parr (plain array) | earr (empty array) | mixed | aot | tab | etab | nest (arrays in arrays)"""
    if kind is None:
        if depth <= 0:
            kind = rng.choice(["leaf", "leaf", "leaf", "parr", "earr", "etab", "eaot"])
        else:
            kind = rng.choice(["leaf", "leaf", "leaf", "parr", "earr", "mixed", "aot", "aot", "tab", "tab", "tab", "etab",
                               "only", "nest", "eaot"])
    if kind == "leaf":
        return rand_leaf(rng)
    if kind == "parr":
        return [rand_leaf(rng) for _ in range(rng.randrange(1, 4))]
    if kind == "earr":
        return []
    if kind == "etab":
        return Tab()
    if kind == "eaot":
        return [Tab() for _ in range(rng.randrange(1, 3))]
    if depth <= 0:
        return rand_leaf(rng)
    if kind == "mixed":
        out = [rand_table(rng, depth - 1, small=True) if rng.random() < 0.5 else rand_value(rng, depth - 1)
               for _ in range(rng.randrange(1, 4))]
        out.insert(rng.randrange(len(out) + 1), rand_leaf(rng) if rng.random() < 0.7 else [])
        out.insert(rng.randrange(len(out) + 1), rand_table(rng, depth - 1, small=True))
        return out
    if kind == "aot":
        return [rand_table(rng, depth - 1, small=rng.random() < 0.5) for _ in range(rng.randrange(1, 4))]
    if kind == "tab":
        return rand_table(rng, depth - 1)
    if kind == "only":
        t = Tab()
        for k in rand_keys(rng, rng.randrange(1, 3)):
            t.items.append((k, rand_value(rng, depth - 1, rng.choice(["tab", "etab", "aot", "only"]))))
        return t
    if kind == "nest":
        return [rand_value(rng, depth - 1, rng.choice(["aot", "parr", "earr", "mixed", "nest"])) for _ in range(rng.randrange(1, 3))]
    raise ValueError(kind)


def rand_table(rng, depth, small=False):
    n = rng.randrange(0, 3) if small else rng.randrange(0, 7)
    t = Tab()
    for k in rand_keys(rng, n):
        t.items.append((k, rand_value(rng, depth)))
    return t


# one representative per entry kind for the exhaustive small scope
def rep(kind):
    one = ("i", 1)
    return {
        "leaf": one,
        "parr": [one, ("i", 2)],
        "earr": [],
        "mixed": [one, Tab([(b"m", one)])],
        "aot": [Tab([(b"p", one), (b"s", Tab([(b"w", one)])), (b"q", one)]), Tab()],
        "tab": Tab([(b"u", Tab([(b"v", one)])), (b"x", one)]),
        "etab": Tab(),
        "only": Tab([(b"sub", Tab())]),
        "nest": [[Tab([(b"n", one)])]],
    }[kind]


EXH_KINDS = ["leaf", "parr", "earr", "mixed", "aot", "tab", "etab", "only", "nest"]


def mk_cases(tree, gen):
    s = enc(tree).encode()
    out = []
    for o in ("s", "i"):
        out.append(Case("val", [o.encode(), s], {"kind": "%s/%s" % (gen, o), "nt": interleaved(tree, o)}))
    return out


WITNESS_TREES = [
    # the example of the property text: scalars and tables interleaved
    Tab([(b"t", Tab([(b"x", ("i", 1)), (b"s", Tab([(b"y", ("i", 2))])), (b"z", ("i", 3))])), (b"a", ("i", 1)),
         (b"aot", [Tab([(b"q", ("i", 1)), (b"sub", Tab([(b"w", ("i", 1))])), (b"r", ("i", 2))]), Tab()]),
         (b"mixed", [("i", 1), Tab([(b"a", Tab([(b"b", ("i", 1))]))])]), (b"e", Tab()), (b"only", Tab([(b"sub", Tab())])),
         (b"arr", [("i", 1), ("i", 2)]), (b"b", ("s", b"x")), (b"ea", []), (b"nest", [[Tab([(b"a", ("i", 1))])]]),
         (b"", Tab([(b"", [Tab()])]))]),
    Tab(),
    Tab([(b"a", Tab())]),
    Tab([(b"a", Tab([(b"b", Tab([(b"c", Tab())]))]))]),
    Tab([(b"a", [Tab(), Tab()])]),
    Tab([(b"a", [Tab([(b"b", [Tab([(b"c", [Tab()])])])])])]),
    Tab([(b"z", Tab([(b"k", ("i", 1))])), (b"a", ("i", 2))]),
    Tab([(b"z", [Tab([(b"k", ("i", 1))])]), (b"m", Tab([(b"k", ("i", 1))])), (b"a", ("i", 2)), (b"b", [("i", 1), Tab()])]),
    Tab([(b"b", [Tab(), ("i", 1)]), (b"a", [Tab()]), (b"c", [[], []])]),
    Tab([(b"s", ("s", b"line1\nline2")), (b"t", Tab([(b"u", ("s", b"\n[x]\ny = 1\n"))]))]),
]


def root_value_cases():
    """roots that are not tables: every scalar kind (all date-time shapes), arrays; both map configurations"""
    one = ("i", 1)
    roots = [("s", x) for x in STRS] + [("i", z) for z in (0, 1, -1, 42, 2 ** 63 - 1, -2 ** 63)] + \
            [("f", struct.unpack("<Q", struct.pack("<d", x))[0]) for x in FLOATS] + [("f", 0x7ff8000000000000)] + \
            [("b", True), ("b", False)] + [("d", x) for x in DATES] + \
            [[], [one, ("i", 2)], [("d", DATES[0]), ("d", DATES[5])], [[], [one]], [Tab([(b"b", one), (b"a", ("d", DATES[6]))]), Tab()],
             [one, Tab([(b"z", Tab([(b"k", one)])), (b"a", one)])]]
    out = []
    for t in roots:
        e = enc(t).encode()
        for o in ("s", "i"):
            out.append(Case("val", [o.encode(), e], {"kind": "root-value/" + o, "nt": False}))
    return out


def gen_cases(rng, tier):
    quick = tier == "quick"
    out = []
    for t in WITNESS_TREES:
        out += mk_cases(t, "witness")
    out += root_value_cases()
    # date-times of every shape as root ENTRIES (Display of an indexed entry)
    out += mk_cases(Tab([(("k%d" % i).encode(), ("d", x)) for i, x in enumerate(DATES)] + [(b"s", ("s", b"x")), (b"f", ("f", 0x3ff8000000000000)),
                         (b"b", ("b", True)), (b"a", [("d", DATES[0])]), (b"t", Tab([(b"d", ("d", DATES[5]))]))]), "witness")
    # exhaustive small scope: every sequence of entry kinds, keys in every order
    maxn = 3 if quick else 4
    names = [b"a", b"b", b"c", b"d"]
    for n in range(1, maxn + 1):
        for kinds in itertools.product(EXH_KINDS, repeat=n):
            for perm in itertools.permutations(range(n)):
                if n == 4 and perm not in ((0, 1, 2, 3), (3, 2, 1, 0), (1, 3, 0, 2)):
                    continue
                t = Tab([(names[perm[j]], rep(kinds[j])) for j in range(n)])
                cs = mk_cases(t, "exhaustive")
                # under BTreeMap the description order does not matter: keep one permutation
                out += cs if perm == tuple(range(n)) else cs[1:]
    # the same one level down: inside a table and inside an array of tables
    for n in range(1, 3):
        for kinds in itertools.product(EXH_KINDS, repeat=n):
            for perm in itertools.permutations(range(n)):
                inner = Tab([(names[perm[j]], rep(kinds[j])) for j in range(n)])
                out += mk_cases(Tab([(b"k", ("i", 0)), (b"in", inner)]), "exhaustive-nested")[1:]
                out += mk_cases(Tab([(b"el", [inner, inner]), (b"k", ("i", 0))]), "exhaustive-nested")[1:]
    # random trees
    n_rand = 2500 if quick else 100000
    for _ in range(n_rand):
        out += mk_cases(rand_table(rng, rng.randrange(1, 5)), "random")
    # parse-print-parse-print of valid documents
    n_txt = 1500 if quick else 40000
    made = 0
    tries = 0
    while made < n_txt and tries < 20 * n_txt:
        tries += 1
        tg = G.TreeGen(rng, small_keys=rng.random() < 0.2)
        st = tg.statements(tg.tree())
        v = G.ref_eval(st)
        if v[0] != "valid" or not G.within_limits(st):
            continue
        text = G.Renderer(rng, plain=rng.random() < 0.3).document(st)
        if not G.utf8_ok(text):
            continue
        out.append(Case("txt", [text], {"kind": "txt", "nt": len(st) >= 3}))
        made += 1
    for t in [b"", b"a = 1\n", b"[a]\n[b]\n[a.c]\n", b"[a.b]\n[a]\nx = 1\n", b"[[a]]\n[[a.b]]\n[a.c]\n[[a]]\n", b"a.b = 1\na.c = 2\n",
              b"a = { b = 1, c = { d = 2 } }\n", b"[t]\nz = 1\n[t.s]\ny = 2\n[u]\n", b"x = [ { a = 1 }, { b = 2 } ]\ny = [1, {a = 1}]\n"]:
        out.append(Case("txt", [t], {"kind": "txt", "nt": True}))
    # values of derived types, in both builds
    n_der = 1200 if quick else 25000
    g = GS.SerdeGen(rng, max_depth=4, allow_unsupported=False)
    made = 0
    while made < n_der:
        ty = g.root_ty()
        v = g.value(ty)
        if GS.mentions_private(ty, v):
            continue        # the in-band date-time tunnel names: C07's known class F14, not this property
                            # (a date-time at the root is simply not serializable as a document since the repair of
                            # C06-root-datetime-printed-as-table: s1=err, nothing is claimed)
        a = [GS.ty_str(ty).encode(), GS.val_str(v).encode()]
        for o in (b"s", b"i"):
            out.append(Case("canon", a + [o], {"kind": "derived/" + o.decode(), "nt": GS.ty_depth(ty) >= 2}))
        made += 1
    del _ALL[:]
    _ALL.extend(out)
    return out


# ------------------------------------------------------------------------------------------
# the preserve_order build, in one lazy batch
# ------------------------------------------------------------------------------------------
_ALL = []
_po_cache = {}
BINS = {}


def _po_line(case):
    line = case.line()
    if line not in _po_cache:
        todo = [c.line() for c in _ALL if c.cmd == "val" and c.args[0] == b"i"]
        if line not in todo:
            todo = [line]
        todo = [l for l in dict.fromkeys(todo) if l not in _po_cache]
        binary = BINS.get("po") or common.harness_bin("release", ("po",), "c17")
        for l, r in zip(todo, common.run_lines(binary, todo)):
            _po_cache[l] = r
    return _po_cache[line]


_serde_cache = {}
_serde_bins = {}
STATS = {"derived_serializable": 0, "derived_reordered": 0}


def _serde_bin(feat):
    if feat not in _serde_bins:
        b = common.harness_bin("release", feat, "serde")
        with common.build_lock():
            r = common.build_harness("release", feat, bin_name="serde")
        import os
        if not r.ok and not os.path.exists(b):
            b = None
        _serde_bins[feat] = b
    return _serde_bins[feat]


def _serde_line(case):
    line = case.line()
    if line not in _serde_cache:
        for o, feat in ((b"s", ()), (b"i", ("po",))):
            todo = [c.line() for c in _ALL if c.cmd == "canon" and c.args[2] == o]
            if case.args[2] == o and line not in todo:
                todo = [line]
            todo = [l for l in dict.fromkeys(todo) if l not in _serde_cache]
            if not todo:
                continue
            b = _serde_bin(feat)
            outs = common.run_lines(b, todo) if b else ["CRASH serde harness did not build"] * len(todo)
            for l, r in zip(todo, outs):
                _serde_cache[l] = r
    return _serde_cache[line]


def _impl(case, impl_line):
    if case.cmd == "canon":
        return _serde_line(case)
    return _po_line(case) if impl_line == "skip" else impl_line


def compare(case, model_line, impl_line):
    if case.cmd == "txt":
        return None if model_line == "skip" else "model answered a txt case"
    if case.cmd == "canon":
        return None          # implementation only
    il = _impl(case, impl_line)
    if il is None:
        return "no answer"
    if model_line == il.split(" # ")[0]:
        return None
    return "model and implementation differ"


# ------------------------------------------------------------------------------------------
# the oracle
# ------------------------------------------------------------------------------------------
def fields(line):
    head, _, tail = line.partition(" # ")
    f = {}
    for part in head.split(" ") + tail.split(" "):
        if part:
            k, _, v = part.partition("=")
            f[k] = v
    return f


def unhex(s):
    return b"" if s == "-" else bytes.fromhex(s)


def parse_doc(s):
    """[(kind, path tuple, [key, ...])]"""
    out = []
    for sec in s.split("/"):
        head, _, body = sec.partition(":")
        kind = head[0]
        path = tuple(unhex(h) for h in head[1:].split(".")) if len(head) > 1 else ()
        keys = []
        depth = 0
        # lines are separated by ',' ; shapes contain no ','
        for ln in body.split(","):
            if ln:
                keys.append(unhex(ln.partition("=")[0]))
        out.append((kind, path, keys))
    return out


def structure_ok(doc, tree):
    """values before tables (no table re-opened after a sub-section), no duplicate header / key,
    same keys per table as the described value"""
    secs = parse_doc(doc)
    if not secs or secs[0][0] != "R":
        return "the document does not start with the root section"
    opened = set()        # paths of [tables] written (in the current array elements)
    has_sub = set()       # paths under which a section was written
    cur_elem = {}         # path of an array of tables -> index of its current element
    # the tables of the described value, addressed by (path with element indices)
    for n, (kind, path, keys) in enumerate(secs):
        if kind == "R" and n > 0:
            return "a second root section"
        if kind == "A":
            # a new element: everything below it starts afresh
            opened = {p for p in opened if p[:len(path)] != path}
            has_sub = {p for p in has_sub if p[:len(path)] != path}
            cur_elem = {p: i for p, i in cur_elem.items() if not (len(p) > len(path) and p[:len(path)] == path)}
            cur_elem[path] = cur_elem.get(path, -1) + 1
        else:
            if path in opened:
                return "table %r has two sections" % (path,)
            if path in has_sub and keys:
                return "table %r: key/value lines after one of its sub-tables" % (path,)
            if path in has_sub and kind == "S":
                return "table %r: header after one of its sub-tables" % (path,)
            opened.add(path)
        for j in range(len(path)):
            has_sub.add(path[:j])
        if len(set(keys)) != len(keys):
            return "a key twice in section %r" % (path,)
        # the described table at this place
        t = tree
        walked = ()
        ok = True
        for k in path:
            walked += (k,)
            nxt = dict(t.items).get(k) if isinstance(t, Tab) else None
            if is_tab(nxt):
                t = nxt
            elif is_aot(nxt):
                i = cur_elem.get(walked, 0)
                if i >= len(nxt):
                    return "more [[%r]] sections than elements" % (walked,)
                t = nxt[i]
            else:
                ok = False
                break
        if not ok:
            return "section %r has no table in the value" % (path,)
        want = set(k for k, x in t.items if not is_tab(x) and not is_aot(x))
        allk = set(k for k, _ in t.items)
        if not (want <= set(keys) <= allk):
            return "section %r lists keys %r, the table's values are %r" % (path, sorted(keys), sorted(want))
    return None


def count_tables(v):
    """(tables that need a section of their own: array elements and empty or value-holding tables)"""
    n = 0
    if isinstance(v, Tab):
        for _, x in v.items:
            if is_tab(x):
                vals = [1 for _, y in x.items if not is_tab(y) and not is_aot(y)]
                if not x.items or vals:
                    n += 1
                n += count_tables(x)
            elif is_aot(x):
                for e in x:
                    n += 1 + count_tables(e)
    return n


def oracle(case, impl_line):
    il = _impl(case, impl_line)
    if il is None or il.startswith(("PANIC", "CRASH", "TIMEOUT")):
        return "implementation crashed: %s" % il
    if case.cmd == "txt":
        if il == "invalid":
            return "a valid document was rejected by toml::Table::from_str"
        f = fields(il)
        if f.get("twice") != "ok":
            return "parse-print-parse-print of a toml::Table gave two different texts"
        try:
            want = norm_py(tomllib.loads(case.args[0].decode("utf-8")))
        except Exception:
            return None          # outside the independent reader's dialect
        try:
            got = norm_py(tomllib.loads(unhex(f["ttext"]).decode("utf-8")))
        except Exception as e:
            return "the printed toml::Table is not valid TOML: %s" % e
        if "nan" in repr(want):
            return None
        return None if got == want else "the printed toml::Table decodes to a different value"
    if case.cmd == "canon":
        return oracle_canon(case, il)
    tree = dec(case.args[1].decode())
    if not isinstance(tree, Tab):
        head, _, vd = il.partition(" vdisp=")
        if head != "not-a-table:err":
            return "a non-table root was serialized as a document: %s" % il[:80]
        return disp_is(vd, tree, "Display for toml::Value on a lone value")
    f = fields(il)
    if "edisp" not in f:
        return "malformed observation line: %s" % il[:200]
    why = disp_is(f["vdisp"], tree, "Display for toml::Value")
    if why:
        return why
    eds = f["edisp"].split(",") if f["edisp"] else []
    if len(eds) != len(tree.items):
        return "Display of the root entries: %d texts for %d entries" % (len(eds), len(tree.items))
    try:
        got = sorted(repr(nan_free(norm_tree(dec(x)))) for x in eds)
    except Exception:
        return "Display of a root entry is not a TOML value: %s" % f["edisp"][:200]
    if got != sorted(repr(nan_free(norm_tree(x))) for _, x in tree.items):
        return "Display of a root entry taken by itself (table[\"k\"].to_string()) is another value than the entry: %s" % f["edisp"][:200]
    for k in ("vdoc", "pdoc", "tdoc", "sdoc", "vdisp", "rb", "fix", "pp", "dec", "tfix", "sdec", "s2fix", "det", "text", "ptext", "ttext", "stext"):
        if k not in f:
            return "malformed observation line: %s" % il[:200]
    names = {"det": "the same value printed twice gave two texts",
             "fix": "to_string(from_str(to_string(v))) differs from to_string(v)",
             "pp": "the plain and the pretty output decode to different values",
             "dec": "the output does not decode to v",
             "tfix": "printing a parsed toml::Table twice gave two texts (or another table)",
             "sdec": "the output of a serializer that keeps its own order does not decode to v",
             "s2fix": "the Value read from such an output does not print to a fixed point"}
    for k, msg in names.items():
        if f[k] != "ok":
            return msg
    want = norm_tree(tree)
    for k, what in (("text", "to_string"), ("ptext", "to_string_pretty"), ("ttext", "Display for Table"),
                    ("stext", "to_string of an own-order serializer")):
        try:
            got = norm_py(tomllib.loads(unhex(f[k]).decode("utf-8")))
        except Exception as e:
            return "%s wrote invalid TOML: %s" % (what, e)
        if got != want:
            return "%s: the text decodes to another value than v" % what
    for k in ("vdoc", "pdoc", "tdoc", "sdoc"):
        if f[k] == "UNREADABLE":
            return "%s: the text does not have the line structure of a document" % k
        why = structure_ok(f[k], tree)
        if why:
            return "%s: %s" % (k, why)
    if dec(f["rb"]) is None:
        return "unreadable rb"
    if norm_tree(dec(f["rb"])) != want:
        return "from_str(to_string(v)) is another value than v"
    return None


def nan_free(n):
    """norm_tree form with every NaN collapsed (the serializer drops the sign of NaN)"""
    if n[0] == "A":
        return ("A", tuple(nan_free(x) for x in n[1]))
    if n[0] == "T":
        return ("T", tuple((k, nan_free(x)) for k, x in n[1]))
    if n[0] == "f" and isinstance(n[1], int) and (n[1] & 0x7fffffffffffffff) > 0x7ff0000000000000:
        return ("f", "nan")
    return n


def disp_is(shape, tree, what):
    """the text `Display for toml::Value` printed, read back (shape), must be the described value"""
    if shape == "UNREADABLE":
        return "%s: the text is not a TOML value" % what
    try:
        got = dec(shape.replace("M", "A"))
    except Exception:
        return "%s: unreadable shape %s" % (what, shape[:120])
    if nan_free(norm_tree(got)) != nan_free(norm_tree(tree)):
        return "%s prints another value: %s" % (what, shape[:200])
    return None


def _tomllib_norm(text):
    try:
        return norm_py(tomllib.loads(text))
    except Exception:
        return None


def oracle_canon(case, il):
    f = {}
    for part in il.split(" "):
        k, _, v = part.partition("=")
        f[k] = v
    s1 = f.get("s1", "")
    if il.startswith("BADCASE") or not s1:
        return "generator/harness bug: %s" % il[:200]
    if s1.startswith("err("):
        return None                    # not serializable: nothing is claimed
    if not case.meta.get("counted"):
        case.meta["counted"] = True
        STATS["derived_serializable"] += 1
    if f.get("det") != "=":
        return "the same value printed twice gave two texts"
    for k, what in (("dp", "to_string_pretty"), ("de", "toml_edit::ser::to_string"), ("dep", "toml_edit::ser::to_string_pretty")):
        if f.get(k) != "=":
            return "%s decodes to another value than to_string: %s" % (what, f.get(k, "")[:200])
    if not f.get("tt", "").startswith("ok:"):
        return "the text parsed as toml::Table does not print the same twice: %s" % f.get("tt", "")[:200]
    text1 = unhex(s1[3:]).decode("utf-8")
    for k in ("s2", "sp2"):
        x = f.get(k)
        if x is None and k == "sp2":
            continue
        if x == "=":
            continue
        if x in ("err", "noparse", None):
            return "%s: the text cannot be read back and printed (%s)" % (k, x)
        # a different text: it must hold the same value (the type's field order is not a Value's)
        if k == "s2":
            a, b = _tomllib_norm(text1), _tomllib_norm(unhex(x).decode("utf-8"))
            if b is None and a is not None:
                return "the reprinted text is not valid TOML"
            if a is not None and a != b:
                return "the reprinted text decodes to another value"
            if not case.meta.get("counted2"):
                case.meta["counted2"] = True
                STATS["derived_reordered"] += 1
    return None


def nontrivial(case, impl_line):
    if case.cmd == "canon":
        il = _impl(case, impl_line)
        return bool(case.meta.get("nt")) and il is not None and il.startswith("s1=ok")
    return bool(case.meta.get("nt"))


def extra_coverage(cases, impl, model):
    n = {"val/s": 0, "val/i": 0, "txt": 0, "canon/s": 0, "canon/i": 0}
    for c in cases:
        n["txt" if c.cmd == "txt" else ("canon/" + c.args[2].decode() if c.cmd == "canon" else "val/" + c.args[0].decode())] += 1
    return {"cases_per_configuration": n, "cases_run_on_preserve_order_build": len(_po_cache),
            "derived_type_cases_on_serde_harness": len(_serde_cache), "derived": dict(STATS)}


def search(rng, ctx):
    return gen_cases(rng, "quick")


def shrink(case, il, why, run):
    """drop entries / array elements while the case still fails"""
    if case.cmd != "val":
        return case, _impl(case, il), why
    cur = dec(case.args[1].decode())
    cur_il, cur_why = _impl(case, il), why

    def variants(v):
        if isinstance(v, Tab):
            for i in range(len(v.items)):
                yield Tab(v.items[:i] + v.items[i + 1:])
            for i, (k, x) in enumerate(v.items):
                for y in variants(x):
                    yield Tab(v.items[:i] + [(k, y)] + v.items[i + 1:])
        elif isinstance(v, list):
            for i in range(len(v)):
                yield v[:i] + v[i + 1:]
            for i, x in enumerate(v):
                for y in variants(x):
                    yield v[:i] + [y] + v[i + 1:]

    changed = True
    while changed:
        changed = False
        cands = [Case("val", [case.args[0], enc(t).encode()], dict(case.meta)) for t in list(variants(cur))[:300]]
        if not cands:
            break
        outs = run(cands)
        for c, l in zip(cands, outs):
            l = _impl(c, l)
            w = "crash" if (l is None or l.startswith(("PANIC", "CRASH"))) else oracle(c, l)
            if w:
                cur, cur_il, cur_why = dec(c.args[1].decode()), l, w
                changed = True
                break
    return Case("val", [case.args[0], enc(cur).encode()], dict(case.meta)), cur_il, cur_why


THEOREMS += [
    "writers: WValue = impl Serialize for Value (three loops at every level), WTable = toml::Table at the root (Display for Table), WStruct = a derived struct / any serializer that keeps its own order at every level",
    "C17_canonical_document: forall w ml m, emit_doc w ml m = sections_of ml (w_three w) (w_tn w) m (serializer + DocumentFormatter + visit_nested_tables/visit_table = the reference document: every value, every map / field order)",
    "C17_values_before_tables / _struct / C17_table_shape / C17_values_before_tables_doc: any table in any entry order, written at any path by either kind of serializer: its own section (all its key/value lines) first, every later section strictly below its path",
    "C17_any_order_decodes: wf v -> exists r, read_back (emit_doc w ml v) = Some r /\\ r = v up to the order of map entries /\\ wf r (every writer, both layouts; the reader refuses duplicate keys / tables)",
    "C17_any_order_same_value, C17_permutation_is_equiv, C17_any_permutation_decodes, C17_permuted_is_equiv: values equal up to map order (perm_tv: the entries of any maps, at any depth, permuted) give documents that are accepted and decode to v up to map order",
    "C17_decodes_to_v_sorted: under BTreeMap the decoded value is exactly v",
    "C17_fixpoint: w in {WValue, WTable} -> wf v -> (BTreeMap: v sorted) -> exists r, decode o (emit v) = Some r /\\ emit r = emit v, for o = BTreeMap and IndexMap (to_string(&Value); printing a parsed Table twice)",
    "C17_struct_second_print (+ Example C17_struct_reprint_differs): a struct's text re-read as toml::Value holds the struct's value up to order and prints to a text that IS a fixed point; the first reprint differs in general (fields sorted / regrouped)",
    "C17_plain_pretty: decode o (emit_doc w pretty v) = decode o (emit_doc w plain v) <> None",
    "C17_line_value_layout_free: the value a key/value line holds does not depend on the plain / pretty array layout",
]
