"""C12 — Date-times: the standalone parser, the document parser and the printer agree."""
import re
from runner import Case

PROP = "C12"
TITLE = "Date-times: the standalone parser, the document parser and the printer agree"
COQ_PROPS = "Props/C12.v"
THEOREMS = [
    "C12_agree: forall s, std_from_str s = doc_datetime s",
    "C12_print_parse: forall d, in_range d -> std_from_str (display d) = Some d /\\ doc_datetime (display d) = Some d",
    "C12_closed: a parsed date-time is in_range",
    "C12_truncation: fraction digits beyond 9 are dropped",
    "C12_exact: forall s d, std_from_str s = Some d <-> date_time_tok s d (the whole string is a date-time token of the specification's grammar, "
    "RFC 3339 ranges included, denoting d); C12_rejects_the_rest: std_from_str s = None <-> no d with date_time_tok s d",
]
RULE = ("seed literals of all four kinds x single substitution/insertion/deletion over the date-time alphabet, "
        "truncation at every byte, every field at and beyond its edges, in-range Datetime grid printed and re-read; "
        "non-trivial = at least one parser accepts, or the string differs from an accepted one by one edit")
ASSUMPTIONS = [
    "Value::from_str is the observation point for the document grammar's date-time",
    "the model walks bytes where the Rust FromStr walks chars (equal on valid UTF-8, argued in Model/DatetimeStd.v; non-ASCII inputs are generated)",
]

ALPHABET = b"0123456789-:.+TtZz "
EXTRA = ["é".encode(), b"_", b"e", b"\t", b"/", b",", "０".encode()]

SEEDS = [
    b"1979-05-27T07:32:00Z", b"1979-05-27T00:32:00-07:00", b"1979-05-27T00:32:00.999999-07:00",
    b"1979-05-27 07:32:00Z", b"1979-05-27t07:32:00z", b"1979-05-27T07:32:00", b"1979-05-27T00:32:00.999999",
    b"1979-05-27", b"07:32:00", b"00:32:00.999999", b"2000-02-29T23:59:60.123456789+23:59",
    b"1900-02-28", b"2024-02-29 00:00:00.5", b"0000-01-01T00:00:00Z", b"9999-12-31T23:59:59.999999999-00:00",
    b"2021-04-30T12:00:00+00:00", b"2021-06-30", b"2021-09-30", b"2021-11-30", b"2021-12-31",
    b"23:59:60", b"00:00:00.000000001", b"12:30:45.1234567891234", b"1987-07-05T17:45:00.12Z",
    b"1987-07-05 17:45:00.0", b"2000-01-01T00:00:00.000+12:34", b"2000-01-01T00:00:00-12:34",
    b"2001-02-28T01:02:03", b"2004-02-29", b"2100-02-28", b"2400-02-29", b"1979-05-27T07:32:00.5z",
    b"1979-05-27t07:32:00.250+01:00", b"1979-05-27 07:32:00-01:30", b"10:00:00.9", b"1979-01-31",
    b"1979-03-31", b"1979-05-31T10:10:10", b"1979-07-31", b"1979-08-31", b"1979-10-31",
]


def two(n):
    return ("%02d" % n).encode()


def gen_cases(rng, tier):
    out = []
    seen = set()

    def add(s, kind):
        if s not in seen:
            seen.add(s)
            out.append(Case("dt", [s], {"kind": kind}))

    for s in SEEDS:
        add(s, "seed")
    # all single edits over the alphabet
    for s in SEEDS:
        for i in range(len(s) + 1):
            add(s[:i], "truncate")
            for a in ALPHABET:
                add(s[:i] + bytes([a]) + s[i:], "insert")
                if i < len(s):
                    add(s[:i] + bytes([a]) + s[i + 1:], "subst")
            if i < len(s):
                add(s[:i] + s[i + 1:], "delete")
            for e in EXTRA:
                if rng.random() < 0.3:
                    add(s[:i] + e + s[i:], "foreign")
    # field edges for every kind
    for mo in range(0, 15):
        for d in list(range(0, 4)) + list(range(27, 34)):
            for y in (1900, 2000, 2023, 2024, 2100, 2400, 0, 9999, 4):
                add(b"%04d-%s-%s" % (y, two(mo), two(d)), "date-edge")
    for h in list(range(0, 3)) + list(range(22, 27)) + [99]:
        for mi in (0, 59, 60, 99):
            for sec in (0, 59, 60, 61, 99):
                add(two(h) + b":" + two(mi) + b":" + two(sec), "time-edge")
                add(b"1979-05-27T" + two(h) + b":" + two(mi) + b":" + two(sec) + b"Z", "time-edge")
    for sign in (b"+", b"-"):
        for h in list(range(0, 3)) + list(range(22, 27)) + [99]:
            for mi in (0, 1, 59, 60, 61, 99):
                add(b"1979-05-27T07:32:00" + sign + two(h) + b":" + two(mi), "offset-edge")
                add(b"07:32:00" + sign + two(h) + b":" + two(mi), "offset-edge")
                add(b"1979-05-27" + sign + two(h) + b":" + two(mi), "offset-edge")
    for n in range(0, 14):
        for digit in (b"0", b"1", b"9"):
            add(b"07:32:00." + digit * n, "fraction")
            add(b"1979-05-27T07:32:00." + digit * n + b"Z", "fraction")
            add(b"07:32:00." + b"0" * n + digit, "fraction")
    # double edits (random)
    n_double = 20000 if tier == "quick" else 400000
    for _ in range(n_double):
        s = bytearray(rng.choice(SEEDS))
        for _k in range(rng.choice((2, 2, 3))):
            op = rng.randrange(3)
            i = rng.randrange(len(s) + 1)
            if op == 0:
                s[i:i] = bytes([rng.choice(ALPHABET)])
            elif op == 1 and i < len(s):
                s[i] = rng.choice(ALPHABET)
            elif i < len(s):
                del s[i]
        add(bytes(s), "double-edit")
    # in-range Datetime values, printed and re-read (dtp)
    grid_y = [0, 1, 4, 99, 100, 400, 1900, 1979, 2000, 2023, 2024, 9999]
    mdays = {1: 31, 2: 28, 3: 31, 4: 30, 5: 31, 6: 30, 7: 31, 8: 31, 9: 30, 10: 31, 11: 30, 12: 31}

    def leap(y):
        return y % 4 == 0 and (y % 100 != 0 or y % 400 == 0)

    def dtp(date, time, off, kind):
        a = [b"0", b"0", b"0", b"0", b"0", b"0", b"0", b"0", b"0", b"N", b"0", b"0"]
        if date:
            a[0:4] = [b"1"] + [str(x).encode() for x in date]
        if time:
            a[4:9] = [b"1"] + [str(x).encode() for x in time]
        if off is not None:
            if off == "Z":
                a[9] = b"Z"
            else:
                a[9] = b"C"; a[10] = b"1" if off < 0 else b"0"; a[11] = str(abs(off)).encode()
        out.append(Case("dtp", a, {"kind": kind, "inrange": kind == "value-grid"}))

    n_vals = 3000 if tier == "quick" else 60000
    for _ in range(n_vals):
        y = rng.choice(grid_y + [rng.randrange(10000)])
        m = rng.randrange(1, 13)
        dmax = 29 if (m == 2 and leap(y)) else mdays[m]
        d = rng.choice([1, dmax, rng.randrange(1, dmax + 1)])
        h = rng.choice([0, 23, rng.randrange(24)])
        mi = rng.choice([0, 59, rng.randrange(60)])
        sec = rng.choice([0, 59, 60, rng.randrange(61)])
        ns = rng.choice([0, 1, 10, 999999999, 500000000, 120000000, rng.randrange(10 ** 9), rng.randrange(1000) * 10 ** 6])
        off = rng.choice([None, "Z", 0, 1, -1, 60, -60, 1439, -1439, rng.randrange(-1439, 1440)])
        shape = rng.randrange(4)
        if shape == 0:
            dtp((y, m, d), (h, mi, sec, ns), off if off is not None else "Z", "value-grid")
        elif shape == 1:
            dtp((y, m, d), (h, mi, sec, ns), None, "value-grid")
        elif shape == 2:
            dtp((y, m, d), None, None, "value-grid")
        else:
            dtp(None, (h, mi, sec, ns), None, "value-grid")
    # out-of-range field values: printer output must not be read back as something else silently
    for _ in range(300 if tier == "quick" else 5000):
        dtp((rng.choice([10000, 65535, 1979]), rng.choice([0, 13, 255, 5]), rng.choice([0, 32, 255, 27])),
            (rng.choice([24, 255, 7]), rng.choice([60, 255, 32]), rng.choice([61, 255, 0]), rng.choice([10 ** 9, 4294967295, 0])),
            rng.choice([None, "Z", 1440, -1440, 32767, -32767]), "value-out-of-range")
    return out


FIELD = re.compile(r"(\w+)=(\S+)")


def fields(line):
    return dict(FIELD.findall(line))


def oracle(case, line):
    f = fields(line)
    if case.cmd == "dt":
        if f.get("std") != f.get("doc"):
            return "standalone parser and document grammar disagree: std=%s doc=%s" % (f.get("std"), f.get("doc"))
        v = f["std"] if f["std"] != "none" else f["doc"]
        if v != "none":
            if f.get("rstd") != v or f.get("rdoc") != v:
                return "printed form %s does not read back as the same value: value=%s rstd=%s rdoc=%s" % (
                    bytes.fromhex(f["disp"]).decode("utf-8", "replace") if f["disp"] not in ("none", "-") else f["disp"], v, f.get("rstd"), f.get("rdoc"))
        return None
    if case.cmd == "dtp":
        if case.meta.get("inrange"):
            if f.get("rstd") != f.get("val") or f.get("rdoc") != f.get("val"):
                return "in-range Datetime %s prints as text that reads back as rstd=%s rdoc=%s" % (f.get("val"), f.get("rstd"), f.get("rdoc"))
        else:
            if f.get("rstd") != f.get("rdoc"):
                return "parsers disagree on printed text: rstd=%s rdoc=%s" % (f.get("rstd"), f.get("rdoc"))
        return None
    return "unknown case"


def nontrivial(case, line):
    f = fields(line)
    if case.cmd == "dt":
        return f.get("std") != "none" or f.get("doc") != "none" or case.meta.get("kind") in ("subst", "insert", "delete", "truncate")
    return True


def search(rng, ctx):
    # re-run the thorough generator; the oracle is model-independent
    cases = gen_cases(rng, "thorough")
    # put neighbours of diverging cases first
    pre = []
    for c, il, ml, d in ctx["divergences"][:50]:
        pre.append(c)
        if c.cmd == "dt":
            s = c.args[0]
            for i in range(len(s) + 1):
                for a in ALPHABET:
                    pre.append(Case("dt", [s[:i] + bytes([a]) + s[i:]], {"kind": "neighbour"}))
                    if i < len(s):
                        pre.append(Case("dt", [s[:i] + bytes([a]) + s[i + 1:]], {"kind": "neighbour"}))
    return pre + cases


def shrink(case, il, why, run):
    if case.cmd != "dt":
        return case, il, why
    cur, cur_il, cur_why = case, il, why
    changed = True
    while changed:
        changed = False
        s = cur.args[0]
        cands = [Case("dt", [s[:i] + s[i + 1:]], cur.meta) for i in range(len(s))]
        if not cands:
            break
        outs = run(cands)
        for c, l in zip(cands, outs):
            w = oracle(c, l) if not (l.startswith("PANIC") or l.startswith("CRASH")) else "crash"
            if w:
                cur, cur_il, cur_why = c, l, w
                changed = True
                break
    return cur, cur_il, cur_why
