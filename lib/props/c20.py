"""C20 — Visitors reach every node of a document exactly once."""
import glob, os, re
from runner import Case
import gen_toml as G

PROP = "C20"
TITLE = "Visitors reach every node of a document exactly once"
COQ_PROPS = "Props/C20.v"
DRIVER_NAME = "c20"
HARNESS = {"bin": "c20"}
THEOREMS = [
    "C20_visit: forall t, visit_document t = expected_log t  (the complete call log = visit_document, then for every node of `nodes t` in preorder its matching hook and the dispatching hooks around it)",
    "C20_visit_hooks: forall t, filter is_node_hook (visit_document t) = map node_hook (nodes t)",
    "C20_visit_mut: forall t, the default VisitMut makes the same calls and leaves the tree unchanged",
    "C20_rewrite: forall g t, tree after a VisitMut whose scalar hooks do g = map_scalars g t, and it made the same calls as Visit",
    "C20_rewrite_integers / C20_rewrite_strings: the two instances exercised by the harness",
    "C20_rewrite_nodes / C20_rewrite_scalar_list: the rewritten document has the same nodes in the same order, each the image of the old one; its scalars are the old ones with g applied",
    "C20_once: exists a NoDup, document-ordered list of ALL positions of the tree such that the node-level calls are one for one the matching hook on the node at each position",
    "C20_placeholder_regression: an Item::None placeholder inside an inline table (doc[\"t\"][\"x\"] auto-vivification) gets no hook call (finding F11, repaired in /repo; replayed on the implementation by the `ph` cases)",
]
RULE = ("random valid documents from lib/gen_toml.py (ref_eval == valid, within_limits; depth 3 and 4, small and varied key pools; "
        "dotted-key tables, implicit super-tables, arrays of tables, inline tables and arrays nested in each other), hand-written nesting seeds, "
        "the toml-test 1.0.0 valid corpus, placeholder-carrying edited documents; per document: logging Visit, logging VisitMut, integer- and "
        "string-rewriting VisitMut; non-trivial = at least 3 nodes and at least one nested container")
ASSUMPTIONS = [
    "a visitor is modelled as one that logs every hook and continues with the default body; other overriding visitors (DocumentFormatter, Pretty) are exercised by C07/C11, not here",
    "the theorems hold for every tree of the model's type tbl; an ArrayOfTables holding non-table items or an Array holding non-value items (only reachable through IndexMut assignment) is outside / skipped by the model exactly as by ArrayOfTables::iter / Array::iter",
    "the independent walk of the harness uses the same public iterators as the tree dump; completeness with respect to the TEXT is checked against the log derived from the reference interpreter's tree (gen_toml.ref_eval) for generated documents",
]

I64 = 1 << 63


# ---------------------------------------------------------------------------------------------
# the expected call log, derived from the reference interpretation of the abstract statements
# ---------------------------------------------------------------------------------------------
def _ref_value(v, out):
    k = v[0]
    if k == "a":
        out.append("Va")
        out.append("A%d" % len(v[1]))
        for e in v[1]:
            _ref_value(e, out)
    elif k == "t":
        _ref_inline(G._inline_to_tab(v[1]), out)
    else:
        out.append({"s": "Vs", "i": "Vi", "f": "Vf", "b": "Vb", "d": "Vd"}[k])
        out.append(G.dump_value(v))


def _ref_inline(t, out):
    n = len(t.items)
    out += ["Vt", "N%d" % n, "L%d" % n]
    for k, node in t.items:
        out += ["K" + G.hexs(k), "Iv"]
        if isinstance(node, G.Val):
            _ref_value(node.v, out)
        else:
            _ref_inline(node, out)      # a dotted table inside an inline table is an inline table


def _ref_table(t, out):
    n = len(t.items)
    out += ["T%d" % n, "L%d" % n]
    for k, node in t.items:
        out.append("K" + G.hexs(k))
        if isinstance(node, G.Val):
            out.append("Iv")
            _ref_value(node.v, out)
        elif isinstance(node, G.Aot):
            out += ["Ia", "O%d" % len(node.elems)]
            for e in node.elems:
                _ref_table(e, out)
        else:
            out.append("It")
            _ref_table(node, out)


def ref_log(root):
    out = ["D"]
    _ref_table(root, out)
    return ",".join(out)


# ---------------------------------------------------------------------------------------------
# cases
# ---------------------------------------------------------------------------------------------
SEEDS = [
    b"",
    b"a = 1\n",
    b"# only a comment\n",
    b"a.b.c = 1\na.b.d = 2\na.e = [1, 2]\n",
    b"[a.b.c]\nx = 1\n[a]\ny = 2\n",
    b"[[t]]\nv = [ {a = [ {b = [1, [2, {c = 3}]]} ]}, 4 ]\n[[t]]\n[t.u]\nw.x.y = {z.q = ['s', 1.5, true, 1979-05-27]}\n[[t.u.aa]]\n[[t.u.aa]]\nk = {}\n",
    b"x = [[], [[]], {}, {a = {}}, [{}, []]]\n",
    b"a = {b.c = 1, b.d = 2, e = [{f.g = 1}]}\n",
    b"[x.y.z.w]\n[x]\n[x.y]\nk = 1\n",
    b"[[a]]\n[[a.b]]\n[a.b.c]\nd = 1\n[[a.b]]\n[[a]]\nq = [1, 2, 3]\n",
    b"i1 = 9223372036854775807\ni2 = -9223372036854775808\ni3 = 9223372036854774807\ni4 = 0x10\ni5 = 1_000\n",
    b"s1 = ''\ns2 = \"a\\nb\"\ns3 = '''x'''\ns4 = \"\"\"\ny\"\"\"\n\"s 5\" = \"k\"\n",
    b"a = [1, 2] # c\n\n[t] # d\n  b = { x = 1 , y = 'z' } # e\n",
    "k = \"é\"\n\"日本\" = [\"\U0001f600\"]\n".encode(),
]

PH = [
    (b"t = {}\n", b"t", b"x"),
    (b"t = {a = 1}\n", b"t", b"x"),
    (b"t = {a = 1}\n", b"t", b"a"),
    (b"[t]\na = 1\n", b"t", b"x"),
    (b"t = {a = {b = 1}}\nu = 2\n", b"t", b"z"),
]


def corpus_valid():
    out = []
    for base in glob.glob(os.path.expanduser("~/.cargo/registry/src/*/toml-test-data-1.15.0/assets/toml-test/tests")):
        lst = os.path.join(base, "files-toml-1.0.0")
        if not os.path.exists(lst):
            continue
        for name in open(lst):
            name = name.strip()
            if name.startswith("valid/") and name.endswith(".toml"):
                p = os.path.join(base, name)
                try:
                    b = open(p, "rb").read()
                    b.decode("utf-8")
                except (OSError, UnicodeDecodeError):
                    continue
                if b"\n" in b or True:
                    out.append((name, b))
        break
    return out


def gen_cases(rng, tier):
    out = []
    seen = set()

    def add(text, kind, ref=None):
        if text in seen:
            return
        seen.add(text)
        meta = {"kind": kind}
        if ref is not None:
            meta["ref"] = ref
        out.append(Case("visit", [text], meta))

    for s in SEEDS:
        add(s, "seed")
    for name, b in corpus_valid():
        add(b, "corpus")
    for d, k1, k2 in PH:
        out.append(Case("ph", [d, k1, k2], {"kind": "placeholder"}))
    n = 10000 if tier == "quick" else 300000
    tries = 0
    while len(out) < n + len(SEEDS) and tries < 4 * n:
        tries += 1
        x = rng.random()
        tg = G.TreeGen(rng, small_keys=(x < 0.25), max_depth=4 if x > 0.7 else 3)
        tree = tg.tree()
        st = tg.statements(tree)
        if not G.within_limits(st):
            continue
        v = G.ref_eval(st)
        if v[0] != "valid":
            continue
        text = G.Renderer(rng, plain=(rng.random() < 0.2)).document(st)
        if not G.utf8_ok(text):
            continue
        add(text, "generated", ref_log(v[1]))
    return out


# ---------------------------------------------------------------------------------------------
# oracle (implementation line only)
# ---------------------------------------------------------------------------------------------
FIELD = re.compile(r"(\w+)=(\S*)")
INT = re.compile(r"(?<![a-z])i:(-?\d+)")
STR = re.compile(r"(?<![a-z])s:([0-9a-f]+|-)")


def fields(line):
    return dict(FIELD.findall(line))


def _wrap(z):
    return (z + I64) % (1 << 64) - I64


def expect_rwi(tree):
    return INT.sub(lambda m: "i:%d" % _wrap(int(m.group(1)) + 1000), tree)


def expect_rws(tree):
    return STR.sub(lambda m: "s:" + ("" if m.group(1) == "-" else m.group(1)) + "21", tree)


def oracle(case, line):
    if case.cmd == "ph":
        # an edited document holding an Item::None placeholder (regression for finding F11)
        if not line.startswith("ok "):
            return "unexpected observation: %s" % line[:80]
        f = fields(line)
        if f.get("walk") != "same":
            return "Visit on a document with a placeholder: the logged calls differ from the independent walk"
        if "In" in f.get("visit", "").split(","):
            return "visit_item was called on an Item::None placeholder"
        return None
    if line == "err":
        if case.meta.get("kind") in ("generated", "seed", "corpus"):
            return None if case.meta.get("kind") == "corpus" else "a valid document was rejected (nothing to walk)"
        return None
    if not line.startswith("ok "):
        return "unexpected observation: %s" % line[:80]
    f = fields(line)
    log = f.get("visit", "")
    if f.get("walk") != "same":
        return "Visit: the logged calls differ from the independent walk over the public accessors"
    if f.get("mut") != "same":
        return "VisitMut: the logged calls differ from those of Visit"
    ev = log.split(",")
    if "In" in ev:
        return "visit_item was called on an Item::None placeholder in a parsed document"
    if f.get("text0") != f.get("text1"):
        return "the default mutable walk changed the printed document"
    if f.get("rwilog") != "same" or f.get("rwslog") != "same":
        return "an overriding VisitMut made different calls"
    tree = f.get("tree", "")
    if f.get("rwi") != expect_rwi(tree):
        return "integer rewrite: the rewritten tree is not the old one with every integer + 1000 (and nothing else changed)"
    if f.get("rws") != expect_rws(tree):
        return "string rewrite: the rewritten tree is not the old one with '!' appended to every string (and nothing else changed)"
    ref = case.meta.get("ref")
    if ref is not None and ref != log:
        return "the logged calls differ from the walk of the reference interpreter's tree of the document text"
    return None


NODE_EVENT = re.compile(r"^(T\d+|N\d+|K.*|A\d+|O\d+|s:.*|i:.*|f:.*|b:.*|dt\(.*)$")


def nontrivial(case, line):
    if not line.startswith("ok "):
        return False
    ev = fields(line).get("visit", "").split(",")
    n_nodes = sum(1 for e in ev if NODE_EVENT.match(e))
    nested = any(e in ("Va", "Vt", "It", "Ia") for e in ev)
    return n_nodes >= 3 and nested


def extra_coverage(cases, impl, model):
    import collections
    hist = collections.Counter()
    deepest = 0
    for c, l in zip(cases, impl):
        if c.cmd != "visit" or not l or not l.startswith("ok "):
            continue
        ev = fields(l).get("visit", "").split(",")
        for e in ev:
            if e in ("Va", "Vt", "It", "Ia"):
                hist[e] += 1
        # array inside inline table inside array of tables
        if "Ia" in ev and "Vt" in ev and "Va" in ev:
            hist["doc_with_aot_inline_array"] += 1
    return {"container_events": dict(hist)}


def search(rng, ctx):
    pre = [c for c, il, ml, d in ctx["divergences"][:50]]
    return pre + gen_cases(rng, "quick")


def shrink(case, il, why, run):
    if case.cmd != "visit":
        return case, il, why
    cur, cur_il, cur_why = case, il, why
    changed = True
    while changed:
        changed = False
        lines = cur.args[0].split(b"\n")
        cands = [Case("visit", [b"\n".join(lines[:i] + lines[i + 1:])], {"kind": "shrunk"}) for i in range(len(lines))]
        if not cands:
            break
        outs = run(cands)
        for c, l in zip(cands, outs):
            if l is None or l.startswith("PANIC") or l.startswith("CRASH"):
                w = "crash"
            else:
                w = oracle(c, l)
                if w and "rejected" in w:
                    w = None
            if w:
                cur, cur_il, cur_why = c, l, w
                changed = True
                break
    return cur, cur_il, cur_why
