"""C02 — Decoded data is exactly what the document says.

Oracle (implementation only): the canonical dump of the decoded tree (keys after unquoting,
nesting, array order, source order of keys, types, every scalar's exact value; floats by bit
pattern) equals the dump computed by the reference interpreter from the generator's own
ABSTRACT document — independent of both parsers.  Per-spelling tables exercise every escape,
trimming rule, base and date-time spelling through `Value::from_str` (`val`).
The serde front end (`toml::from_str::<toml::Value>`) must decode to the same tree (`docv`).
"""
from runner import Case
import gen_toml as G

PROP = "C02"
COQ_PROPS = "Props/C02.v"
COQ_PROPS_EXTRA = ["Props/C02tokens.v", "Props/C02doc.v", "Props/C02front.v", "Props/C02front2.v", "Props/C02acc.v", "Props/C02accv.v"]
THEOREMS = ["Props/C02acc.v (27 theorems): the READ API of the decoded tree (Item / Value type_name, is_x, as_x, as_table_like, Item::get by key and index, Array::get, InlineTable::get, doc[k]; Model/Accessors.v from value.rs, item.rs, index.rs) reads that tree faithfully: kinds exclusive and exhaustive, every downcast answers exactly on its own kind with the stored scalar (C02acc_read_scalar), Item's duplicates are the value's own, type names = flags, lookups hand out what iteration hands out and never a placeholder, and on every accepted document doc[k] / Item::get(k) find every root entry (C02acc_parsed_root_lookup, through parse_WF); Props/C02accv.v (10 theorems): the same for toml::Value (Model/AccessorsToml.v from crates/toml/src/value.rs): same_type is exactly equality of type_str and an equivalence, flags = same_type against one probe per kind, every as_x answers exactly on its own constructor, get(i) / get(key) hand out the stored element / entry and None elsewhere, reading a Map alternately from both ends hands out every entry exactly once",
            "C02_tree (Props/C02doc.v): for every accepted document and every valid derivation of its text the decoded tree is the tree the statements denote - keys, nesting, order, kinds, every scalar, exact decimals of floats, date-time fields; derivations agree",
            "Props/C02tokens.v: the value half of every token lemma (strings with all escapes, integers in four bases, floats as exact decimals, booleans, date-times); Props/C02front.v / C02front2.v: the toml::Value / Table front ends decode to the same data (names in coverage.theorem_names)"]
RULE = ("valid abstract documents rendered in every spelling + per-spelling value tables; non-trivial = document with "
        ">= 2 values or a value using a non-canonical spelling; 30% of the documents are also read through the public accessors only "
        "(commands acc / accv, the latter for toml::Value: the tree rebuilt from as_x payloads must equal the reference decoding, flags / type names / lookups consistent)")
ASSUMPTIONS = ["floats: the exact decimal is fixed by the model; the final rounding is compared against Python's correctly rounded float()"]


def _spellings(rng, tier):
    out = []

    def val(text, exp, kind):
        out.append(Case("val", [text], {"kind": kind, "expect": exp}))

    def s(b):
        return "s:" + (b.hex() if b else "-")
    # escapes
    for esc, v in [(b"\\b", b"\x08"), (b"\\t", b"\t"), (b"\\n", b"\n"), (b"\\f", b"\x0c"), (b"\\r", b"\r"), (b'\\"', b'"'), (b"\\\\", b"\\")]:
        val(b'"a' + esc + b'b"', s(b"a" + v + b"b"), "escape")
        val(b'"""a' + esc + b'b"""', s(b"a" + v + b"b"), "escape")
    for cp in [0, 1, 0x7f, 0x80, 0x7ff, 0x800, 0xd7ff, 0xe000, 0xffff, 0x10000, 0x10ffff, 0x41, 0xe9, 0x1f600]:
        enc = chr(cp).encode("utf-8")
        if cp <= 0xffff:
            val(b'"\\u%04X"' % cp, s(enc), "u-escape")
            val(b'"\\u%04x"' % cp, s(enc), "u-escape")
        val(b'"\\U%08X"' % cp, s(enc), "U-escape")
    for cp in [0xd800, 0xdfff, 0x110000, 0xffffffff]:
        if cp <= 0xffff:
            val(b'"\\u%04X"' % cp, "err", "u-escape-bad")
        val(b'"\\U%08X"' % cp, "err", "u-escape-bad")
    # first-newline trim, line-ending backslash, quote runs
    for nl in (b"\n", b"\r\n"):
        val(b'"""' + nl + b'a"""', s(b"a"), "ml-trim")
        val(b'"""' + nl + nl + b'a"""', s(b"\na"), "ml-trim")
        val(b"'''" + nl + b"a'''", s(b"a"), "ml-trim")
        val(b"'''" + nl + nl + b"a'''", s(b"\na"), "ml-trim")
        val(b'"""a' + nl + b'b"""', s(b"a\nb"), "ml-newline")
        val(b"'''a" + nl + b"b'''", s(b"a\nb"), "ml-newline")
        for wsp in (b"", b" ", b"\t ", b"  \t"):
            for tail in (b"", b"  ", nl, nl + b"  " + nl + b"\t"):
                val(b'"""a\\' + wsp + nl + tail + b'b"""', s(b"ab"), "ml-continuation")
    val(b'"""a\\ b"""', "err", "ml-continuation-bad")
    for q in range(0, 6):
        for pos in ("start", "mid", "end"):
            run = b'"' * q
            text = {"start": b'"""' + run + b'x"""', "mid": b'"""x' + run + b'y"""', "end": b'"""x' + run + b'"""'}[pos]
            exp = {"start": s(run + b"x"), "mid": s(b"x" + run + b"y"), "end": s(b"x" + run)}[pos]
            if pos == "end":
                ok = q <= 2
            elif pos == "start":
                # """ + run: 3+q quotes; q>=3 closes an empty string after three quotes and leaves garbage
                ok = q <= 2
            else:
                ok = q <= 2
            val(text, exp if ok else "err?", "mlb-quotes")
            run2 = b"'" * q
            text = {"start": b"'''" + run2 + b"x'''", "mid": b"'''x" + run2 + b"y'''", "end": b"'''x" + run2 + b"'''"}[pos]
            exp = {"start": s(run2 + b"x"), "mid": s(b"x" + run2 + b"y"), "end": s(b"x" + run2)}[pos]
            val(text, exp if q <= 2 else "err?", "mll-quotes")
    # integers
    for z in [0, 1, -1, 7, 42, 2 ** 63 - 1, -2 ** 63, 2 ** 62, 1000000, 255]:
        val(str(z).encode(), "i:%d" % z, "int")
        if z >= 0:
            val(b"+" + str(z).encode(), "i:%d" % z, "int")
            val(b"0x%x" % z, "i:%d" % z, "int-hex")
            val(b"0x%X" % z, "i:%d" % z, "int-hex")
            val(b"0x00%x" % z, "i:%d" % z, "int-hex")
            val(b"0o%o" % z, "i:%d" % z, "int-oct")
            val(b"0b" + "{0:b}".format(z).encode(), "i:%d" % z, "int-bin")
        d = str(abs(z))
        for k in range(1, len(d)):
            val((("-" if z < 0 else "") + d[:k] + "_" + d[k:]).encode(), "i:%d" % z, "int-underscore")
    val(b"-0", "i:0", "int")
    val(b"+0", "i:0", "int")
    for bad in [b"01", b"1__2", b"_1", b"1_", b"0x", b"0x_1", b"0X1", b"0b2", b"0o8", b"+0x1", b"-0x1", b"1e", b"1.", b".5", b"1._5", b"1_.5", b"1e_5", b"--1", b"+-1", b"0_1"]:
        val(bad, "err", "number-bad")
    # floats: exact decimal -> bits
    for t in ["0.0", "-0.0", "+0.0", "1.0", "3.14", "5e+22", "1e06", "-2E-2", "6.626e-34", "224_617.445_991_228", "1e308",
              "1.7976931348623157e308", "4.9e-324", "2.4703282292062327e-324", "2.4703282292062328e-324", "1e-400", "0e0", "-0e-0",
              "9007199254740993.0", "9007199254740992.5", "0.1", "0.30000000000000004", "1.0000000000000002", "1e23", "8.5e-5",
              "123456789012345678901234567890.0", "0.000000000000000000000000000001e30"]:
        val(t.encode(), G.f64_bits_text(t), "float")
    for t in ["inf", "+inf", "-inf", "nan", "+nan", "-nan"]:
        val(t.encode(), G.f64_bits_text(t), "float-special")
    for t in [b"Inf", b"NaN", b"infinity", b"+ inf", b"1e309", b"-1e309"]:
        val(t, "err", "float-bad")
    for t, e in [(b"true", "b:true"), (b"false", "b:false"), (b"True", "err"), (b"tru", "err"), (b"falsey", "err")]:
        val(t, e, "bool")
    # date-times: 1..12 fraction digits, delimiters
    for nd in range(1, 14):
        digits = "123456789123456"[:nd]
        ns = int((digits + "000000000")[:9])
        val(("07:32:00." + digits).encode(), "dt(none;7:32:0.%d;none)" % ns, "dt-fraction")
        for delim in "Tt ":
            val(("1979-05-27%s07:32:00.%sZ" % (delim, digits)).encode(), "dt(1979-5-27;7:32:0.%d;Z)" % ns, "dt-fraction")
    val(b"1979-05-27T07:32:00-00:00", "dt(1979-5-27;7:32:0.0;C0)", "dt")
    val(b"1979-05-27T07:32:00+07:30", "dt(1979-5-27;7:32:0.0;C450)", "dt")
    val(b"1979-05-27T07:32:00-07:30", "dt(1979-5-27;7:32:0.0;C-450)", "dt")
    return out


def header_order_family(rng, tier):
    """every order of the headers of small table trees (a deep header first creates its super-tables implicitly; they are
    re-opened later, between siblings), with key/value lines in each: the decoded key ORDER is part of the property"""
    import itertools
    out = []
    trees = [
        [(b"p",), (b"p", b"a"), (b"p", b"a", b"b")],
        [(b"a", b"b", b"c"), (b"a", b"x"), (b"a", b"y"), (b"a", b"z"), (b"a", b"b")],
        [(b"p",), (b"p", b"a", b"b"), (b"q",), (b"p", b"c"), (b"p", b"a")],
        [(b"t", b"u", b"v", b"w"), (b"t",), (b"t", b"u"), (b"t", b"u", b"v")],
    ]
    for paths in trees:
        perms = list(itertools.permutations(range(len(paths))))
        if tier == "quick" and len(perms) > 30:
            perms = rng.sample(perms, 30)
        for perm in perms:
            st = []
            for hi in perm:
                st.append(("hdr", list(paths[hi])))
                for j in range(rng.choice([0, 1, 2, 3])):
                    st.append(("kv", [b"k%d%d" % (hi, j)], ("i", j)))
            v = G.ref_eval(st)
            if v[0] != "valid":
                continue
            text = G.Renderer(rng, plain=rng.random() < 0.5).document(st)
            out.append(Case("doc", [text], {"kind": "header-order", "expect": G.dump_tab(v[1]), "nvals": sum(1 for s_ in st if s_[0] == "kv")}))
            out.append(Case("docv", [text], {"kind": "serde-value", "expect": G.dump_tab(v[1])}))
    return out


def gen_cases(rng, tier):
    out = _spellings(rng, tier) + header_order_family(rng, tier)
    n_docs = 8000 if tier == "quick" else 300000
    for _ in range(n_docs):
        tg = G.TreeGen(rng, small_keys=rng.random() < 0.2)
        st = tg.statements(tg.tree())
        v = G.ref_eval(st)
        if v[0] != "valid" or not G.within_limits(st):
            continue
        text = G.Renderer(rng, plain=rng.random() < 0.1).document(st)
        exp = G.dump_tab(v[1])
        out.append(Case("doc", [text], {"kind": "abstract", "expect": exp, "nvals": sum(1 for s in st if s[0] == "kv")}))
        if rng.random() < 0.25:
            out.append(Case("docv", [text], {"kind": "serde-value", "expect": exp}))
        if rng.random() < 0.3:
            # the same document read through the public accessors only (Item / Value type_name, is_x, as_x,
            # Item::get by key and index, Array::get, InlineTable::get, doc["k"]); Model/Accessors.v
            out.append(Case("acc", [text], {"kind": "accessors", "expect": exp, "nvals": sum(1 for s in st if s[0] == "kv")}))
        if rng.random() < 0.2:
            # ... and toml::Value through ITS read API (type_str, same_type, is_x, as_x, get); Model/AccessorsToml.v
            out.append(Case("accv", [text], {"kind": "accessors-toml", "expect": exp, "nvals": sum(1 for s in st if s[0] == "kv")}))
    return out


def _field(line, name):
    # fields are separated by single spaces and contain none
    for part in line.split(" "):
        if part.startswith(name + "="):
            return part[len(name) + 1:]
    return None


def oracle(case, line):
    exp = case.meta.get("expect")
    if case.cmd == "val":
        if exp == "err?":
            return None           # either a rejection or handled by the model comparison
        if exp == "err":
            return None if line.startswith("err") else "invalid literal accepted: %s" % line[:120]
        got = _field(line, "val")
        if got != exp:
            return "value decoded as %s, the text denotes %s" % (got, exp)
        return None
    if case.cmd == "doc":
        if not line.startswith("ok "):
            return "valid document rejected"
        got = _field(line, "tree")
        if got != exp:
            return "decoded tree differs from the reference decoding"
        return None
    if case.cmd == "acc":
        import accparse
        return accparse.judge(line, exp)
    if case.cmd == "accv":
        import accparse
        return accparse.judge_tv(line, exp)
    if case.cmd == "docv":
        if not line.startswith("ok "):
            return "valid document rejected by toml::from_str::<Value>"
        if _field(line, "edit") != exp:
            return "toml_edit tree differs from the reference decoding"
        if _field(line, "same") != "yes":
            return "toml::Value differs from the toml_edit tree"
        return None
    return None


def compare(case, model_line, impl_line):
    import floatnorm
    m = floatnorm.norm(model_line)
    if case.cmd == "doc":
        return None if (m.split(" print=")[0] == impl_line.split(" print=")[0]) else "decoded trees differ"
    if case.cmd == "val":
        return None if (m.split(" print=")[0] == impl_line.split(" print=")[0]) else "decoded values differ"
    if case.cmd == "accv" and model_line == "-":
        return None          # a float in the document: the toml::Value model leaves the bits to std (FUnmodelled); the oracle still judges
    return None if m == impl_line else "differ"


def known_class(case, line):
    if b"$__toml_private_datetime" in case.args[0]:
        return "private-datetime-key"
    return None


def nontrivial(case, line):
    if case.cmd == "val":
        return True
    return case.meta.get("nvals", 0) >= 2


def search(rng, ctx):
    return gen_cases(rng, "quick")
