#!/bin/sh
# closing pass: the thorough tier of every registered property, run in a lab (scratch worktree of /repo's HEAD + copy of /verif), one after
# the other; the evidence of each run is copied to /verif/evidence-thorough/<id>.json and summarised in summary.json
#   lib/thorough_all.sh [lab-name] [seed]
LAB=${1:-main}; SEED=${2:-7}
V=$(cd "$(dirname "$0")/.." && pwd)
python3 "$V/lib/lab.py" sync "$LAB" > /dev/null || exit 2
mkdir -p "$V/evidence-thorough"
cd /root/lab/$LAB/verif || exit 2
for p in $(python3 -c "import json;print(' '.join(c['property_id'] for c in json.load(open('MANIFEST.json'))['checks']))"); do
  s=$(date +%s)
  out=$(VERIF_REPO=/root/lab/$LAB/repo VERIF_SEED=$SEED ./check $p --tier thorough 2>&1); e=$?
  t=$(( $(date +%s) - s ))
  echo "$p exit=$e ${t}s $(echo "$out" | grep -E "^$p:|^VIOLATION" | tr '\n' ' ' | cut -c1-300)"
  [ -f evidence/$p.json ] && cp evidence/$p.json "$V/evidence-thorough/$p.json"
done
python3 - "$V" <<'PY'
import json, sys, os, glob, subprocess
V = sys.argv[1]
rows = {}
for f in sorted(glob.glob(os.path.join(V, "evidence-thorough", "C*.json"))):
    e = json.load(open(f)); c = e["coverage"]
    rows[e["property_id"]] = {"tier": e["tier"], "seed": e["seed"], "wall_s": e["wall_s"], "evaluations": c.get("evaluations"),
                              "distinct_nontrivial": c.get("distinct_nontrivial"), "obligations": c.get("obligations"), "discharged": c.get("discharged"),
                              "model_impl_divergences": c.get("model_impl_divergences"), "oracle_failures": c.get("oracle_failures"),
                              "coqchk": c.get("coqchk"), "violations": e.get("violations")}
head = lambda d: subprocess.run(["git", "-C", d, "rev-parse", "--short", "HEAD"], stdout=subprocess.PIPE, text=True).stdout.strip()
json.dump({"repo": head("/repo"), "verif": head(V), "properties": rows}, open(os.path.join(V, "evidence-thorough", "summary.json"), "w"), indent=1)
print("summary written:", len(rows), "properties")
PY
