"""gen_serde.py — the serde universe on the python side (C07, C13, C17): random types and values,
their compact ASCII form (the one harness/src/bin/serde/dynty.rs parses and dumps), an INDEPENDENT
notion of value equality (`sval_eq`), of "documented unsupported shape" (`unsupported_kinds`), of
the TOML tree a supported value denotes (`to_tree`), and a renderer of such trees to TOML text in
random layouts (headers / dotted keys / inline tables / arrays of tables).

types   ("b",) ("int", "i8".."u128") ("f32",) ("f64",) ("c",) ("s",) ("dt",) ("da",) ("ti",) ("u",) ("v",)
        ("O", t) ("L", t) ("T", [t]) ("M", kt, vt)
        ("S", name, [(field, t)]) ("N", name, t) ("P", name, [t]) ("Z", name)
        ("E", name, [(vname, "u"|"n"|"t"|"s", payload)])
values  ("B", bool) ("I", int) ("D", bits64) ("G", bits32) ("C", codepoint) ("S", str) ("X", text) ("U",) ("N",)
        ("O", v) ("L", [v]) ("M", [(k, v)]) ("R", [v]) ("W", v) ("E", idx, payload) ("V", tomlvalue)
toml    ("S", str) ("I", int) ("D", bits64) ("B", bool) ("X", text) ("L", [tv]) ("T", [(key, tv)])
"""
import math, struct

import gen_toml

PRIVATE_NAMES = ["$__toml_private_datetime", "$__toml_private_Datetime", "$__serde_spanned_private_start",
                 "$__serde_spanned_private_end", "$__serde_spanned_private_value", "$__serde_spanned_private_Spanned"]

INT_RANGE = {
    "i8": (-2 ** 7, 2 ** 7 - 1), "i16": (-2 ** 15, 2 ** 15 - 1), "i32": (-2 ** 31, 2 ** 31 - 1), "i64": (-2 ** 63, 2 ** 63 - 1),
    "i128": (-2 ** 127, 2 ** 127 - 1), "u8": (0, 2 ** 8 - 1), "u16": (0, 2 ** 16 - 1), "u32": (0, 2 ** 32 - 1),
    "u64": (0, 2 ** 64 - 1), "u128": (0, 2 ** 128 - 1),
}
I64_MAX = 2 ** 63 - 1


# ---------------------------------------------------------------------------------------------
# ASCII form
# ---------------------------------------------------------------------------------------------
def hx(s):
    b = s.encode() if isinstance(s, str) else s
    return b.hex() if b else "-"


def ty_tokens(t, out):
    k = t[0]
    if k == "int":
        out.append(t[1])
    elif k in ("b", "f32", "f64", "c", "s", "dt", "da", "ti", "u", "v"):
        out.append(k)
    elif k in ("O", "L", "Y"):      # "Y": serde_spanned::Spanned<t> (C14, serde half)
        out.append(k); ty_tokens(t[1], out)
    elif k == "T":
        out.append("T%d" % len(t[1]))
        for x in t[1]:
            ty_tokens(x, out)
    elif k == "M":
        out.append("M"); ty_tokens(t[1], out); ty_tokens(t[2], out)
    elif k == "S":
        out.append("S%d" % len(t[2])); out.append(hx(t[1]))
        for f, x in t[2]:
            out.append(hx(f)); ty_tokens(x, out)
    elif k == "N":
        out.append("N"); out.append(hx(t[1])); ty_tokens(t[2], out)
    elif k == "P":
        out.append("P%d" % len(t[2])); out.append(hx(t[1]))
        for x in t[2]:
            ty_tokens(x, out)
    elif k == "Z":
        out.append("Z"); out.append(hx(t[1]))
    elif k == "E":
        out.append("E%d" % len(t[2])); out.append(hx(t[1]))
        for vn, vk, p in t[2]:
            if vk == "u":
                out += ["vu", hx(vn)]
            elif vk == "n":
                out += ["vn", hx(vn)]; ty_tokens(p, out)
            elif vk == "t":
                out += ["vt%d" % len(p), hx(vn)]
                for x in p:
                    ty_tokens(x, out)
            else:
                out += ["vs%d" % len(p), hx(vn)]
                for f, x in p:
                    out.append(hx(f)); ty_tokens(x, out)
    else:
        raise ValueError(k)


def ty_str(t):
    out = []
    ty_tokens(t, out)
    return ",".join(out)


def hxs(s):
    return s.encode().hex()


def tv_tokens(v, out):
    k = v[0]
    if k == "S":
        out.append("S" + hxs(v[1]))
    elif k == "I":
        out.append("I%d" % v[1])
    elif k == "D":
        out.append("D%016x" % v[1])
    elif k == "B":
        out.append("B%d" % (1 if v[1] else 0))
    elif k == "X":
        out.append("X" + hxs(v[1]))
    elif k == "L":
        out.append("L%d" % len(v[1]))
        for x in v[1]:
            tv_tokens(x, out)
    elif k == "T":
        out.append("T%d" % len(v[1]))
        for key, x in v[1]:
            out.append("S" + hxs(key)); tv_tokens(x, out)
    else:
        raise ValueError(k)


def tv_str(v):
    out = []
    tv_tokens(v, out)
    return ",".join(out)


def val_tokens(v, out):
    k = v[0]
    if k == "B":
        out.append("B%d" % (1 if v[1] else 0))
    elif k == "I":
        out.append("I%d" % v[1])
    elif k == "D":
        out.append("D%016x" % v[1])
    elif k == "G":
        out.append("G%08x" % v[1])
    elif k == "C":
        out.append("C%d" % v[1])
    elif k == "S":
        out.append("S" + hxs(v[1]))
    elif k == "X":
        out.append("X" + hxs(v[1]))
    elif k in ("U", "N"):
        out.append(k)
    elif k in ("O", "W"):
        out.append(k); val_tokens(v[1], out)
    elif k == "Y":                    # ("Y", start, end, v): Spanned { span: start..end, value: v }
        out.append("Y%d-%d" % (v[1], v[2])); val_tokens(v[3], out)
    elif k in ("L", "R"):
        out.append("%s%d" % (k, len(v[1])))
        for x in v[1]:
            val_tokens(x, out)
    elif k == "M":
        out.append("M%d" % len(v[1]))
        for a, b in v[1]:
            val_tokens(a, out); val_tokens(b, out)
    elif k == "E":
        out.append("E%d" % v[1]); val_tokens(v[2], out)
    elif k == "V":
        out.append("V"); tv_tokens(v[1], out)
    else:
        raise ValueError(k)


def val_str(v):
    out = []
    val_tokens(v, out)
    return ",".join(out)


class _Toks:
    def __init__(self, s):
        self.t = s.split(",")
        self.i = 0

    def next(self):
        x = self.t[self.i]
        self.i += 1
        return x


def _unhx(s):
    return bytes.fromhex(s).decode("utf-8") if s not in ("", "-") else ""


def _parse_tv(t):
    tok = t.next()
    h, r = tok[0], tok[1:]
    if h == "S":
        return ("S", _unhx(r))
    if h == "I":
        return ("I", int(r))
    if h == "D":
        return ("D", int(r, 16))
    if h == "B":
        return ("B", r == "1")
    if h == "X":
        return ("X", _unhx(r))
    if h == "L":
        return ("L", [_parse_tv(t) for _ in range(int(r))])
    if h == "T":
        es = []
        for _ in range(int(r)):
            k = t.next()
            es.append((_unhx(k[1:]), _parse_tv(t)))
        return ("T", es)
    raise ValueError(tok)


def parse_tv(s):
    return _parse_tv(_Toks(s))


def _parse_val(t):
    tok = t.next()
    h, r = tok[0], tok[1:]
    if h == "B":
        return ("B", r == "1")
    if h == "I":
        return ("I", int(r))
    if h == "D":
        return ("D", int(r, 16))
    if h == "G":
        return ("G", int(r, 16))
    if h == "C":
        return ("C", int(r))
    if h == "S":
        return ("S", _unhx(r))
    if h == "X":
        return ("X", _unhx(r))
    if h in ("U", "N"):
        return (h,)
    if h in ("O", "W"):
        return (h, _parse_val(t))
    if h == "Y":
        a, _, b = r.partition("-")
        return ("Y", int(a), int(b), _parse_val(t))
    if h in ("L", "R"):
        return (h, [_parse_val(t) for _ in range(int(r))])
    if h == "M":
        es = []
        for _ in range(int(r)):
            k = _parse_val(t)
            es.append((k, _parse_val(t)))
        return ("M", es)
    if h == "E":
        return ("E", int(r), _parse_val(t))
    if h == "V":
        return ("V", _parse_tv(t))
    raise ValueError(tok)


def parse_val(s):
    return _parse_val(_Toks(s))


# ---------------------------------------------------------------------------------------------
# equality (independent of the harness' dump comparison)
# ---------------------------------------------------------------------------------------------
def _nan64(b):
    return (b & 0x7ff0000000000000) == 0x7ff0000000000000 and (b & 0x000fffffffffffff) != 0


def _nan32(b):
    return (b & 0x7f800000) == 0x7f800000 and (b & 0x007fffff) != 0


def f64_eq(a, b):
    return a == b or (_nan64(a) and _nan64(b))


def f32_eq(a, b):
    return a == b or (_nan32(a) and _nan32(b))


def tv_eq(a, b):
    """toml::Value trees: equal except NaN == NaN (sign ignored); tables are unordered"""
    if a[0] != b[0]:
        return False
    k = a[0]
    if k == "D":
        return f64_eq(a[1], b[1])
    if k == "L":
        return len(a[1]) == len(b[1]) and all(tv_eq(x, y) for x, y in zip(a[1], b[1]))
    if k == "T":
        da, db = dict(a[1]), dict(b[1])
        if len(da) != len(a[1]) or len(db) != len(b[1]) or set(da) != set(db):
            return False
        return all(tv_eq(da[x], db[x]) for x in da)
    return a[1] == b[1]


def sval_eq(a, b):
    """equality of serde values: equal except NaN == NaN with sign ignored (f32 values are
    compared as f32, i.e. after narrowing); maps are unordered"""
    if a[0] != b[0]:
        return False
    k = a[0]
    if k == "D":
        return f64_eq(a[1], b[1])
    if k == "G":
        return f32_eq(a[1], b[1])
    if k in ("U", "N"):
        return True
    if k in ("O", "W"):
        return sval_eq(a[1], b[1])
    if k == "Y":
        return a[1] == b[1] and a[2] == b[2] and sval_eq(a[3], b[3])
    if k in ("L", "R"):
        return len(a[1]) == len(b[1]) and all(sval_eq(x, y) for x, y in zip(a[1], b[1]))
    if k == "M":
        if len(a[1]) != len(b[1]):
            return False
        rest = list(b[1])
        for ka, va in a[1]:
            for j, (kb, vb) in enumerate(rest):
                if sval_eq(ka, kb):
                    if not sval_eq(va, vb):
                        return False
                    del rest[j]
                    break
            else:
                return False
        return True
    if k == "E":
        return a[1] == b[1] and sval_eq(a[2], b[2])
    if k == "V":
        return tv_eq(a[1], b[1])
    return a[1] == b[1]


# ---------------------------------------------------------------------------------------------
# properties of types / values
# ---------------------------------------------------------------------------------------------
def ty_children(t):
    k = t[0]
    if k in ("O", "L", "Y"):
        return [t[1]]
    if k == "T":
        return list(t[1])
    if k == "M":
        return [t[1], t[2]]
    if k == "S":
        return [x for _, x in t[2]]
    if k == "N":
        return [t[2]]
    if k == "P":
        return list(t[2])
    if k == "E":
        out = []
        for _, vk, p in t[2]:
            if vk == "n":
                out.append(p)
            elif vk == "t":
                out += list(p)
            elif vk == "s":
                out += [x for _, x in p]
        return out
    return []


def ty_depth(t):
    cs = ty_children(t)
    return 1 + (max(ty_depth(c) for c in cs) if cs else 0)


def ty_any(t, pred):
    return pred(t) or any(ty_any(c, pred) for c in ty_children(t))


def has_datetime_leaf(t):
    return ty_any(t, lambda x: x[0] in ("dt", "da", "ti"))


def ty_names(t, out):
    k = t[0]
    if k in ("S", "N", "P", "Z", "E"):
        out.append(t[1])
    if k == "S":
        out += [f for f, _ in t[2]]
    if k == "E":
        for vn, vk, p in t[2]:
            out.append(vn)
            if vk == "s":
                out += [f for f, _ in p]
    for c in ty_children(t):
        ty_names(c, out)


def val_strings(v, out):
    k = v[0]
    if k in ("S", "X"):
        out.append(v[1])
    elif k in ("O", "W"):
        val_strings(v[1], out)
    elif k in ("L", "R"):
        for x in v[1]:
            val_strings(x, out)
    elif k == "M":
        for a, b in v[1]:
            val_strings(a, out); val_strings(b, out)
    elif k == "E":
        val_strings(v[2], out)
    elif k == "V":
        tv_strings(v[1], out)


def tv_strings(v, out):
    k = v[0]
    if k in ("S", "X"):
        out.append(v[1])
    elif k == "L":
        for x in v[1]:
            tv_strings(x, out)
    elif k == "T":
        for key, x in v[1]:
            out.append(key); tv_strings(x, out)


def val_keys(v, out):
    """every string used as a KEY inside a value: map keys (any key type that renders as a string) and the table keys of
    an untyped toml::Value; string VALUES are not collected"""
    k = v[0]
    if k in ("O", "W"):
        val_keys(v[1], out)
    elif k in ("L", "R"):
        for x in v[1]:
            val_keys(x, out)
    elif k == "M":
        for a, b in v[1]:
            val_strings(a, out); val_keys(b, out)
    elif k == "E":
        val_keys(v[2], out)
    elif k == "V":
        tv_keys(v[1], out)


def tv_keys(v, out):
    if v[0] == "L":
        for x in v[1]:
            tv_keys(x, out)
    elif v[0] == "T":
        for key, x in v[1]:
            out.append(key); tv_keys(x, out)


def mentions_private(ty=None, v=None, text=None):
    """the classifier of the known class `private-datetime-key` (F14, in-band signalling of the serde tunnels): a type /
    field / variant NAME or a map / table KEY of the case IS one of the private in-band names (exact equality; a string
    VALUE that merely spells such a name does not count, nor does a longer name containing one), or the document text
    given with the case contains one"""
    names = []
    if ty is not None:
        ty_names(ty, names)
    if v is not None:
        val_keys(v, names)
    if any(n in PRIVATE_NAMES for n in names):
        return True
    return text is not None and any(p in text for p in PRIVATE_NAMES)


def excluded_type(t):
    """shapes outside has_type (DESIGN 6/C07 + coordinator decision S4): Option<Option<_>> and maps
    whose values are Options (a None map value cannot be told from an absent entry)"""
    def bad(x):
        if x[0] == "O" and strip_newtypes(x[1])[0] == "O":
            return True
        if x[0] == "M" and strip_newtypes(x[2])[0] == "O":
            return True
        return False
    return ty_any(t, bad)


def strip_newtypes(t):
    while t[0] == "N":
        t = t[2]
    return t


# ---------------------------------------------------------------------------------------------
# "documented unsupported shape", derived by READING the serializers
#   toml_edit/src/ser/{value,map,key,array}.rs, toml/src/ser.rs, toml/src/value.rs
# route in ("tp","tpp","ep","epp","doc","val","tab")
# returns the set of error kinds the route may legitimately answer with (empty = must succeed)
# ---------------------------------------------------------------------------------------------
EDIT_ROUTES = ("ep", "epp", "doc")
TOML_ROUTES = ("tp", "tpp")
TREE_ROUTES = ("val", "tab")


def _key_kinds(kt, kv, route, out):
    """map key: toml_edit KeySerializer accepts str, unit variants and newtype structs of those;
    toml::value::SerializeMap accepts whatever Value::try_from turns into a Value::String"""
    t, v = kt, kv
    while t[0] == "N":
        t, v = t[2], v[1]
    if route in TREE_ROUTES:
        while t[0] in ("N", "O"):
            if t[0] == "O":
                if v[0] == "N":
                    out.add("unsupported-none"); return
                t, v = t[1], v[1]
            else:
                t, v = t[2], v[1]
        if t[0] in ("s", "c"):
            return
        if t[0] == "E" and t[2][v[1]][1] == "u":
            return
        if t[0] == "v" and v[1][0] == "S":
            return
        inner = set()
        _kinds(t, v, route, "elem", inner)
        if inner:
            out |= inner
        else:
            out.add("key-not-string")
        return
    if t[0] == "s":
        return
    if t[0] == "E" and t[2][v[1]][1] == "u":
        return
    if t[0] == "v" and v[1][0] == "S":
        return
    out.add("key-not-string")


def _kinds(t, v, route, ctx, out):
    """ctx: "field" = directly the value of a struct field / struct-variant field / map entry
    (the only place a None is tolerated: the entry is skipped); "elem" = anywhere else"""
    k = t[0]
    if k == "int":
        if t[1] in ("i128", "u128"):
            out.add("int128")
        elif v[1] > I64_MAX:
            out.add("out-of-range")
    elif k == "u":
        out.add("unsupported-unit")
    elif k == "Z":
        out.add("unsupported-type")
    elif k == "O":
        if v[0] == "N":
            if ctx != "field":
                out.add("unsupported-none")
        else:
            _kinds(t[1], v[1], route, "elem", out)
    elif k == "L":
        for x in v[1]:
            _kinds(t[1], x, route, "elem", out)
    elif k in ("T", "P"):
        ts = t[1] if k == "T" else t[2]
        for tt, x in zip(ts, v[1]):
            _kinds(tt, x, route, "elem", out)
    elif k == "M":
        for a, b in v[1]:
            _key_kinds(t[1], a, route, out)
            _kinds(t[2], b, route, "field", out)
    elif k == "S":
        for (_, tt), x in zip(t[2], v[1]):
            _kinds(tt, x, route, "field", out)
    elif k == "N":
        _kinds(t[2], v[1], route, "elem", out)
    elif k == "E":
        _, vk, p = t[2][v[1]]
        if vk == "n":
            _kinds(p, v[2], route, "elem", out)
        elif vk == "t":
            for tt, x in zip(p, v[2][1]):
                _kinds(tt, x, route, "elem", out)
        elif vk == "s":
            for (_, tt), x in zip(p, v[2][1]):
                _kinds(tt, x, route, "field", out)


def _root_kinds(t, v, route, out, direct=True):
    """what the value at the document root must be"""
    if route == "val":
        return
    k = t[0]
    if k == "N":
        return _root_kinds(t[2], v[1], route, out, direct if route == "tab" else False)
    if k == "O":
        if v[0] == "N":
            out.add("unsupported-none"); return
        return _root_kinds(t[1], v[1], route, out, direct if route == "tab" else False)
    if k in ("S", "M"):
        return
    if k == "v":
        if v[1][0] == "T":
            return
        out.add("root-not-table"); return   # a date-time too, on every route (Table::try_from refuses the tunnel struct)
    if k in ("dt", "da", "ti"):
        # a date-time is not a table: refused by every document route (toml's like toml_edit's since the repair of
        # C06-root-datetime-printed-as-table) and by Table::try_from (value.rs TableSerializer::serialize_struct refuses
        # toml_datetime's private struct; before, it answered the table { "$__toml_private_datetime" = ".." })
        out.add("root-not-table"); return
    if k == "E":
        vk = t[2][v[1]][1]
        if vk == "n":
            return
        if route in EDIT_ROUTES or not direct:
            # toml_edit's ValueSerializer writes every non-unit variant as a one-entry table
            if vk in ("t", "s"):
                return
            out.add("root-not-table"); return
        if route in TOML_ROUTES:
            out.add("unsupported-type" if vk == "s" else "root-not-table"); return
        out.add("unsupported-type"); return  # tab: TableSerializer names the enum
    if route == "tab":
        if k == "P":
            out.add("unsupported-type"); return
    out.add("root-not-table")


def unsupported_kinds(t, v, route):
    out = set()
    _kinds(t, v, route, "elem", out)
    _root_kinds(t, v, route, out)
    return out


def nested_none_below_field(t, v):
    """classifier of the known class C07-tryfrom-nested-none-dropped: the value has a None in a
    position where it is not tolerated (inside a sequence / tuple / newtype / variant payload /
    Some) somewhere BELOW a struct field, struct-variant field or map value"""
    def walk(t, v, ctx, below):
        k = t[0]
        if k == "O":
            if v[0] == "N":
                return ctx != "field" and below
            return walk(t[1], v[1], "elem", below)
        if k == "L":
            return any(walk(t[1], x, "elem", below) for x in v[1])
        if k in ("T", "P"):
            ts = t[1] if k == "T" else t[2]
            return any(walk(tt, x, "elem", below) for tt, x in zip(ts, v[1]))
        if k == "M":
            # a None KEY fails inside the map, i.e. below whatever field holds the map
            return any(walk(t[1], a, "elem", below) or walk(t[2], b, "field", True) for a, b in v[1])
        if k == "S":
            return any(walk(tt, x, "field", True) for (_, tt), x in zip(t[2], v[1]))
        if k == "N":
            return walk(t[2], v[1], "elem", below)
        if k == "E":
            _, vk, p = t[2][v[1]]
            if vk == "n":
                return walk(p, v[2], "elem", below)
            if vk == "t":
                return any(walk(tt, x, "elem", below) for tt, x in zip(p, v[2][1]))
            if vk == "s":
                return any(walk(tt, x, "field", True) for (_, tt), x in zip(p, v[2][1]))
        return False
    return walk(t, v, "elem", False)


# ---------------------------------------------------------------------------------------------
# the TOML tree a supported value denotes (independent reading of the data-model mapping)
#   tree: ("s", str) ("i", int) ("f", bits) ("b", bool) ("d", text) ("a", [tree]) ("t", [(key, tree)])
# ---------------------------------------------------------------------------------------------
class Unsupported(Exception):
    pass


def _key_text(kt, kv):
    t, v = kt, kv
    while t[0] == "N":
        t, v = t[2], v[1]
    if t[0] == "s":
        return v[1]
    if t[0] == "E" and t[2][v[1]][1] == "u":
        return t[2][v[1]][0]
    raise Unsupported("key")


def tv_tree(v):
    k = v[0]
    if k == "S":
        return ("s", v[1])
    if k == "I":
        return ("i", v[1])
    if k == "D":
        return ("f", v[1] & 0x7fffffffffffffff if _nan64(v[1]) else v[1])
    if k == "B":
        return ("b", v[1])
    if k == "X":
        return ("d", v[1])
    if k == "L":
        return ("a", [tv_tree(x) for x in v[1]])
    return ("t", [(key, tv_tree(x)) for key, x in v[1]])


def f32_to_f64_bits(b):
    x = struct.unpack("<f", struct.pack("<I", b))[0]
    if math.isnan(x):
        return 0x7ff8000000000000
    return struct.unpack("<Q", struct.pack("<d", x))[0]


def to_tree(t, v, ctx="elem"):
    """returns the tree, or None for a skipped (None) field; raises Unsupported"""
    k = t[0]
    if k == "b":
        return ("b", v[1])
    if k == "int":
        if t[1] in ("i128", "u128") or v[1] > I64_MAX:
            raise Unsupported("int")
        return ("i", v[1])
    if k == "f64":
        return ("f", 0x7ff8000000000000 if _nan64(v[1]) else v[1])
    if k == "f32":
        return ("f", f32_to_f64_bits(v[1]))
    if k == "c":
        return ("s", chr(v[1]))
    if k == "s":
        return ("s", v[1])
    if k in ("dt", "da", "ti"):
        return ("d", v[1])
    if k in ("u", "Z"):
        raise Unsupported("unit")
    if k == "v":
        return tv_tree(v[1])
    if k == "O":
        if v[0] == "N":
            if ctx == "field":
                return None
            raise Unsupported("none")
        return to_tree(t[1], v[1])
    if k == "L":
        return ("a", [to_tree(t[1], x) for x in v[1]])
    if k in ("T", "P"):
        ts = t[1] if k == "T" else t[2]
        return ("a", [to_tree(tt, x) for tt, x in zip(ts, v[1])])
    if k == "M":
        es = []
        for a, b in v[1]:
            x = to_tree(t[2], b, "field")
            if x is not None:
                es.append((_key_text(t[1], a), x))
        return ("t", es)
    if k == "S":
        return ("t", _fields_tree(t[2], v[1]))
    if k == "N":
        return to_tree(t[2], v[1])
    if k == "E":
        vn, vk, p = t[2][v[1]]
        if vk == "u":
            return ("s", vn)
        if vk == "n":
            return ("t", [(vn, to_tree(p, v[2]))])
        if vk == "t":
            return ("t", [(vn, ("a", [to_tree(tt, x) for tt, x in zip(p, v[2][1])]))])
        return ("t", [(vn, ("t", _fields_tree(p, v[2][1])))])
    raise ValueError(k)


def _fields_tree(fs, xs):
    es = []
    for (f, tt), x in zip(fs, xs):
        y = to_tree(tt, x, "field")
        if y is not None:
            es.append((f, y))
    return es


# ---------------------------------------------------------------------------------------------
# rendering a tree as TOML text (random layout)
# ---------------------------------------------------------------------------------------------
BARE = set("ABCDEFGHIJKLMNOPQRSTUVWXYZabcdefghijklmnopqrstuvwxyz0123456789-_")


def basic_string(s):
    out = ['"']
    for ch in s:
        o = ord(ch)
        if ch == '"':
            out.append('\\"')
        elif ch == "\\":
            out.append("\\\\")
        elif ch == "\n":
            out.append("\\n")
        elif ch == "\t":
            out.append("\\t")
        elif o < 0x20 or o == 0x7f:
            out.append("\\u%04X" % o)
        else:
            out.append(ch)
    out.append('"')
    return "".join(out)


def render_string(rng, s):
    if rng is not None and "'" not in s and all(ord(c) >= 0x20 and ord(c) != 0x7f or c == "\t" for c in s) and rng.random() < 0.3:
        return "'" + s + "'"
    return basic_string(s)


def render_key(rng, k):
    if k and all(c in BARE for c in k) and (rng is None or rng.random() < 0.85):
        return k
    return render_string(rng, k)


def render_float(bits):
    if _nan64(bits):
        return "-nan" if bits >> 63 else "nan"
    x = struct.unpack("<d", struct.pack("<Q", bits))[0]
    if math.isinf(x):
        return "-inf" if x < 0 else "inf"
    r = repr(x)
    if "." not in r and "e" not in r and "E" not in r:
        r += ".0"
    if "e" in r and "." not in r.split("e")[0]:
        m, e = r.split("e")
        r = m + ".0e" + e
    return r


def render_inline(rng, n):
    k = n[0]
    if k == "s":
        return render_string(rng, n[1])
    if k == "i":
        if rng is not None and n[1] >= 0 and rng.random() < 0.1:
            return rng.choice([lambda x: "0x%x" % x, lambda x: "0o%o" % x, lambda x: "0b" + bin(x)[2:], lambda x: "+%d" % x])(n[1])
        return "%d" % n[1]
    if k == "f":
        return render_float(n[1])
    if k == "b":
        return "true" if n[1] else "false"
    if k == "d":
        return n[1]
    if k == "a":
        return "[" + ", ".join(render_inline(rng, x) for x in n[1]) + "]"
    return "{" + ", ".join(render_key(rng, key) + " = " + render_inline(rng, x) for key, x in n[1]) + "}"


def _is_aot(n):
    return n[0] == "a" and len(n[1]) > 0 and all(x[0] == "t" for x in n[1])


def render_doc(rng, tree, p_inline=0.25, p_dotted=0.2, p_subfirst=0.0):
    """tree must be a table; layout choices: inline / dotted / [header] / [[array of tables]];
    with probability p_subfirst a [table] that has [sub-tables] comes AFTER them (`[a.b]` ... `[a]`: the table `a`
    exists as an implicit table when its own header is met and is re-opened; no rng is used for this when 0)"""
    lines = []

    def table(path, entries, header_needed, aot):
        body, later = [], []
        for key, n in entries:
            ks = render_key(rng, key)
            if n[0] == "t" and rng.random() >= p_inline:
                if rng.random() < p_dotted and n[1] and all(x[0] != "t" and not _is_aot(x) for _, x in n[1]):
                    for k2, x in n[1]:
                        body.append("%s.%s = %s" % (ks, render_key(rng, k2), render_inline(rng, x)))
                else:
                    later.append((ks, n, False))
            elif _is_aot(n) and rng.random() >= p_inline:
                later.append((ks, n, True))
            else:
                body.append("%s = %s" % (ks, render_inline(rng, n)))
        sub_first = bool(p_subfirst) and bool(path) and not aot and bool(later) and rng.random() < p_subfirst

        def own():
            if path and (header_needed or body or not later or sub_first):
                lines.append(("[[%s]]" if aot else "[%s]") % ".".join(path))
            lines.extend(body)

        if not sub_first:
            own()
        for ks, n, is_aot in later:
            if is_aot:
                for el in n[1]:
                    table(path + [ks], el[1], True, True)
            else:
                table(path + [ks], n[1], False, False)
        if sub_first:
            own()

    table([], tree[1], False, False)
    nl = rng.choice(["\n", "\n", "\r\n"])
    return nl.join(lines) + (nl if lines and rng.random() < 0.9 else "")


def render_doc_with_order(rng, tree, p_inline=0.25, p_dotted=0.2):
    """render_doc (same text, same use of rng) that also returns the tree with every table's entries in
    DOCUMENT order — the order in which a parser meets the keys: a table's own key/value lines (inline and
    dotted ones) first, then its [sub-tables] and [[arrays of tables]].  (C13: which key comes FIRST in a
    table is observable through the date-time tunnel, F14.)"""
    lines = []

    def table(path, entries, header_needed, aot):
        body, later = [], []
        first, second = [], []
        for key, n in entries:
            ks = render_key(rng, key)
            if n[0] == "t" and rng.random() >= p_inline:
                if rng.random() < p_dotted and n[1] and all(x[0] != "t" and not _is_aot(x) for _, x in n[1]):
                    for k2, x in n[1]:
                        body.append("%s.%s = %s" % (ks, render_key(rng, k2), render_inline(rng, x)))
                    first.append((key, n))
                else:
                    later.append((ks, n, False, key))
            elif _is_aot(n) and rng.random() >= p_inline:
                later.append((ks, n, True, key))
            else:
                body.append("%s = %s" % (ks, render_inline(rng, n)))
                first.append((key, n))
        if path and (header_needed or body or not later):
            lines.append(("[[%s]]" if aot else "[%s]") % ".".join(path))
        lines.extend(body)
        for ks, n, is_aot, key in later:
            if is_aot:
                second.append((key, ("a", [("t", table(path + [ks], el[1], True, True)) for el in n[1]])))
            else:
                second.append((key, ("t", table(path + [ks], n[1], False, False))))
        return first + second

    ordered = ("t", table([], tree[1], False, False))
    nl = rng.choice(["\n", "\n", "\r\n"])
    return nl.join(lines) + (nl if lines and rng.random() < 0.9 else ""), ordered


# ---------------------------------------------------------------------------------------------
# random types and values
# ---------------------------------------------------------------------------------------------
FIELD_POOL = ["a", "b", "c", "d", "e", "key", "k-1", "_x", "1", "true", "a b", "a.b", "é", "", "Type", "x\"y", "日本", "#h", "t\tb"]
VARIANT_POOL = ["A", "B", "C", "Unit", "New", "Tup", "St", "a-b", "1", "x y", "", "é"]
TYPE_NAMES = ["S", "T1", "Point", "Cfg", "En", "Wrap"]
STRS = [b.decode("utf-8") for b in gen_toml.STR_POOL]
KEYS = [b.decode("utf-8") for b in gen_toml.KEY_POOL]
DATETIMES = ["1979-05-27T07:32:00Z", "1979-05-27T00:32:00-07:00", "1979-05-27T00:32:00.999999-07:00", "1979-05-27T07:32:00",
             "1979-05-27T00:32:00.999999", "0000-01-01T00:00:00Z", "9999-12-31T23:59:59.999999999+23:59", "2000-02-29T23:59:60.5-00:01",
             "2024-02-29T12:00:00.000000001", "1987-07-05T17:45:00.12Z"]
DATES = ["1979-05-27", "0000-01-01", "9999-12-31", "2000-02-29", "2024-02-29", "1900-02-28"]
TIMES = ["07:32:00", "00:32:00.999999", "23:59:60", "00:00:00.000000001", "12:30:45.123456789", "00:00:00", "10:00:00.5"]
F64_EDGES = [0x0000000000000000, 0x8000000000000000, 0x7ff0000000000000, 0xfff0000000000000, 0x7ff8000000000000,
             0xfff8000000000000, 0x7ff0000000000001, 0x3ff0000000000000, 0xbff0000000000000, 0x0000000000000001,
             0x7fefffffffffffff, 0x0010000000000000, 0x3fb999999999999a, 0x4340000000000000, 0x4341c37937e08000,
             0x3e7ad7f29abcaf48, 0x433fffffffffffff, 0xc3e0000000000000, 0x43e0000000000000, 0x3ff8000000000000]
F32_EDGES = [0x00000000, 0x80000000, 0x7f800000, 0xff800000, 0x7fc00000, 0xffc00000, 0x7f800001, 0x3f800000, 0x00000001,
             0x7f7fffff, 0x00800000, 0x3dcccccd, 0x4b800000, 0x3fc00000,
             # 7.038531e-26 and its neighbours: the one f32 magnitude whose SHORTEST decimal digits, read as f64 and narrowed,
             # round to the next f32 (exhaustive 2^32 scan, repo fix 11c4ed2): any widening of an f32 that goes through
             # decimal text instead of `as f64` shows here and nowhere else
             0x15ae43fd, 0x95ae43fd, 0x15ae43fc, 0x15ae43fe]


class SerdeGen:
    def __init__(self, rng, max_depth=5, allow_unsupported=True, allow_excluded=False):
        self.rng = rng
        self.max_depth = max_depth
        self.allow_unsupported = allow_unsupported
        self.allow_excluded = allow_excluded
        self.counter = 0

    # ---- types ----
    def name(self):
        self.counter += 1
        return self.rng.choice(TYPE_NAMES) + (str(self.counter) if self.rng.random() < 0.5 else "")

    def names(self, pool, n):
        r = self.rng
        out = []
        while len(out) < n:
            c = r.choice(pool) if r.random() < 0.9 else r.choice(KEYS)
            if c not in out:
                out.append(c)
        return out

    def leaf(self):
        r = self.rng
        x = r.random()
        if x < 0.28:
            ws = ["i8", "i16", "i32", "i64", "u8", "u16", "u32", "u64"]
            if self.allow_unsupported and r.random() < 0.06:
                ws += ["i128", "u128"]
            return ("int", r.choice(ws))
        if x < 0.42:
            return ("s",)
        if x < 0.52:
            return ("b",)
        if x < 0.62:
            return ("f64",)
        if x < 0.68:
            return ("f32",)
        if x < 0.75:
            return ("c",)
        if x < 0.87:
            return (r.choice(["dt", "da", "ti"]),)
        if x < 0.93:
            return ("v",)
        if self.allow_unsupported and x < 0.96:
            return r.choice([("u",), ("Z", "Unit" + str(r.randrange(3)))])
        return ("s",)

    def key_type(self):
        r = self.rng
        x = r.random()
        if x < 0.6:
            return ("s",)
        if x < 0.8:
            n = r.randrange(1, 4)
            return ("E", self.name(), [(vn, "u", None) for vn in self.names(VARIANT_POOL, n)])
        if x < 0.88:
            return ("N", self.name(), ("s",))
        if not self.allow_unsupported:
            return ("s",)
        # every other kind of key a Serialize impl can hand to KeySerializer / toml::value::SerializeMap (all refused, or
        # accepted only where Value::try_from makes a string of it): measured source coverage (lib/coverage_run.py) showed that
        # only bool / i32 / u64 / char / none of toml_edit/src/ser/key.rs were ever called
        if r.random() < 0.45:
            return r.choice([("c",), ("int", "i32"), ("b",), ("O", ("s",)), ("int", "u64")])
        return r.choice([("int", r.choice(["i8", "i16", "i64", "i64", "u8", "u16", "u32"])), ("f32",), ("f64",), ("u",),
                         ("Z", "UnitKey"), ("L", ("s",)), ("T", [("s",), ("s",)]), ("M", ("s",), ("s",)),
                         ("S", "KeyRec", [("a", ("s",))]), ("P", "KeyPair", [("s",), ("s",)]),
                         ("E", "KeyEnum", [("U", "u", None), ("N", "n", ("s",)), ("T", "t", [("s",), ("s",)]), ("S", "s", [("a", ("s",))])]),
                         ("dt",)])

    def ty(self, depth=None):
        r = self.rng
        d = self.max_depth if depth is None else depth
        if d <= 1 or r.random() < 0.18:
            return self.leaf()
        x = r.random()
        if x < 0.30:
            n = r.choice([0, 1, 1, 2, 2, 3, 3, 4, 5])
            return ("S", self.name(), [(f, self.ty(d - 1)) for f in self.names(FIELD_POOL, n)])
        if x < 0.42:
            return ("L", self.ty(d - 1))
        if x < 0.54:
            inner = self.ty(d - 1)
            if inner[0] == "O" and not self.allow_excluded:
                inner = ("L", inner)
            return ("O", inner)
        if x < 0.64:
            vt = self.ty(d - 1)
            if strip_newtypes(vt)[0] == "O" and not self.allow_excluded:
                vt = ("L", vt)
            return ("M", self.key_type(), vt)
        if x < 0.72:
            return ("T", [self.ty(d - 1) for _ in range(r.choice([1, 2, 2, 3]))])
        if x < 0.78:
            return ("N", self.name(), self.ty(d - 1))
        if x < 0.82:
            return ("P", self.name(), [self.ty(d - 1) for _ in range(r.choice([2, 2, 3]))])
        n = r.choice([1, 2, 3, 4])
        vs = []
        for vn in self.names(VARIANT_POOL, n):
            vk = r.choice(["u", "n", "n", "t", "s", "s"])
            if vk == "u":
                vs.append((vn, "u", None))
            elif vk == "n":
                vs.append((vn, "n", self.ty(d - 1)))
            elif vk == "t":
                vs.append((vn, "t", [self.ty(d - 1) for _ in range(r.choice([2, 2, 3]))]))
            else:
                k = r.choice([0, 1, 2, 2, 3])
                vs.append((vn, "s", [(f, self.ty(d - 1)) for f in self.names(FIELD_POOL, k)]))
        return ("E", self.name(), vs)

    def root_ty(self):
        """mostly table-shaped roots (so that most routes succeed)"""
        r = self.rng
        x = r.random()
        if x < 0.7:
            n = r.choice([1, 2, 3, 3, 4, 5, 6])
            return ("S", self.name(), [(f, self.ty(self.max_depth - 1)) for f in self.names(FIELD_POOL, n)])
        if x < 0.8:
            vt = self.ty(self.max_depth - 1)
            if strip_newtypes(vt)[0] == "O" and not self.allow_excluded:
                vt = ("L", vt)
            return ("M", self.key_type(), vt)
        return self.ty()

    # ---- values ----
    def int_value(self, w):
        r = self.rng
        lo, hi = INT_RANGE[w]
        cands = [lo, hi, 0, 1, -1, 127, 128, 255, 256, 2 ** 31 - 1, 2 ** 31, 2 ** 32, 2 ** 53, 2 ** 63 - 1, 2 ** 63, 2 ** 64 - 1,
                 -2 ** 63, -2 ** 63 - 1, 2 ** 127 - 1, lo + 1, hi - 1, r.randrange(lo, hi + 1), r.randrange(-1000, 1000)]
        cands = [c for c in cands if lo <= c <= hi]
        if not self.allow_unsupported:
            cands = [c for c in cands if c <= I64_MAX]
        return ("I", r.choice(cands))

    def string(self):
        r = self.rng
        x = r.random()
        if x < 0.6:
            return r.choice(STRS)
        if x < 0.8:
            return r.choice(KEYS)
        if x < 0.82:
            return r.choice(PRIVATE_NAMES)
        if x < 0.9:
            return r.choice(DATETIMES + DATES + TIMES + ["true", "1", "inf", "nan", "1.5", "[1]", "{}"])
        return "".join(chr(r.choice([r.randrange(0x20, 0x7f), r.randrange(0, 0x20), r.randrange(0x80, 0x800), r.randrange(0x10000, 0x10ffff),
                                     0x7f, 0xe000, 0xffff])) for _ in range(r.randrange(0, 12)))

    def char(self):
        r = self.rng
        return r.choice([0, 9, 10, 13, 0x1f, 0x20, 0x22, 0x27, 0x5c, 0x7f, 0x80, 0xe9, 0xd7ff, 0xe000, 0xffff, 0x10000, 0x10ffff, 0x41, 0x61,
                         r.randrange(0x20, 0x7f), r.randrange(0xa0, 0xd800)])

    def toml_value(self, depth=3, want_table=False):
        r = self.rng
        x = r.random()
        if want_table or (depth > 0 and x < 0.25):
            n = r.choice([0, 1, 2, 3, 4])
            keys = []
            while len(keys) < n:
                k = r.choice(KEYS) if r.random() < 0.7 else r.choice(FIELD_POOL)
                if k not in keys:
                    keys.append(k)
            return ("T", [(k, self.toml_value(depth - 1)) for k in keys])
        if depth > 0 and x < 0.45:
            n = r.choice([0, 1, 2, 3])
            if r.random() < 0.4:
                return ("L", [self.toml_value(depth - 1, want_table=True) for _ in range(n)])
            return ("L", [self.toml_value(depth - 1) for _ in range(n)])
        if x < 0.6:
            return ("I", r.choice([0, 1, -1, 2 ** 63 - 1, -2 ** 63, r.randrange(-10 ** 6, 10 ** 6)]))
        if x < 0.72:
            return ("S", self.string())
        if x < 0.82:
            b = r.choice(F64_EDGES) if r.random() < 0.7 else struct.unpack("<Q", struct.pack("<d", r.uniform(-1e6, 1e6)))[0]
            return ("D", b)
        if x < 0.9:
            return ("B", r.random() < 0.5)
        return ("X", r.choice(DATETIMES + DATES + TIMES))

    def value(self, t, p_none=0.3):
        r = self.rng
        k = t[0]
        if k == "b":
            return ("B", r.random() < 0.5)
        if k == "int":
            return self.int_value(t[1])
        if k == "f64":
            if r.random() < 0.6:
                return ("D", r.choice(F64_EDGES))
            x = r.choice([r.uniform(-1e6, 1e6), r.uniform(-1, 1) * 10 ** r.randrange(-300, 300), float(r.randrange(-10 ** 6, 10 ** 6)), r.random()])
            return ("D", struct.unpack("<Q", struct.pack("<d", x))[0])
        if k == "f32":
            if r.random() < 0.6:
                return ("G", r.choice(F32_EDGES))
            x = r.choice([r.uniform(-1e6, 1e6), r.uniform(-1, 1) * 10 ** r.randrange(-37, 37), float(r.randrange(-10 ** 6, 10 ** 6))])
            return ("G", struct.unpack("<I", struct.pack("<f", x))[0])
        if k == "c":
            return ("C", self.char())
        if k == "s":
            return ("S", self.string())
        if k == "dt":
            return ("X", r.choice(DATETIMES + DATES + TIMES))
        if k == "da":
            return ("X", r.choice(DATES))
        if k == "ti":
            return ("X", r.choice(TIMES))
        if k in ("u", "Z"):
            return ("U",)
        if k == "v":
            return ("V", self.toml_value())
        if k == "O":
            if r.random() < p_none:
                return ("N",)
            return ("O", self.value(t[1], p_none))
        if k == "L":
            n = r.choice([0, 0, 1, 1, 2, 2, 3])
            # None inside a sequence is the documented unsupported shape: keep it rare
            pn = p_none if (self.allow_unsupported and r.random() < 0.15) else 0.0
            return ("L", [self.value(t[1], pn) for _ in range(n)])
        if k in ("T", "P"):
            ts = t[1] if k == "T" else t[2]
            pn = p_none if (self.allow_unsupported and r.random() < 0.15) else 0.0
            return ("L", [self.value(x, pn) for x in ts])
        if k == "M":
            n = r.choice([0, 1, 1, 2, 2, 3])
            es, seen = [], []
            for _ in range(n):
                kv = self.value(t[1], 0.1)
                ks = val_str(kv)
                if ks in seen:
                    continue
                seen.append(ks)
                es.append((kv, self.value(t[2], p_none)))
            return ("M", es)
        if k == "S":
            return ("R", [self.value(x, p_none) for _, x in t[2]])
        if k == "N":
            pn = p_none if (self.allow_unsupported and r.random() < 0.15) else 0.0
            return ("W", self.value(t[2], pn))
        if k == "E":
            i = r.randrange(len(t[2]))
            _, vk, p = t[2][i]
            pn = p_none if (self.allow_unsupported and r.random() < 0.15) else 0.0
            if vk == "u":
                return ("E", i, ("U",))
            if vk == "n":
                return ("E", i, self.value(p, pn))
            if vk == "t":
                return ("E", i, ("L", [self.value(x, pn) for x in p]))
            return ("E", i, ("R", [self.value(x, p_none) for _, x in p]))
        raise ValueError(k)


# ---------------------------------------------------------------------------------------------
# the duplicate-key family (C07, C13): maps written from a LIST OF PAIRS in which a key repeats
# (what `serializer.collect_map(pairs)` of an ordered multi-map, or a struct field colliding with a
# `#[serde(flatten)]` map, hands to a serializer).  The harness serializes ("M", [(k, v), ...]) with
# collect_map over the pairs in the given order, so a value of this family needs no new syntax.  Such
# values are OUTSIDE has_type (colliding keys); what every route must do with them is keep the LAST
# value of a repeated key (IndexMap::insert / BTreeMap::insert), and read back the last-wins map.
# ---------------------------------------------------------------------------------------------
def last_wins(v):
    """the value a dup-key value denotes: in every map the last value of a repeated key wins"""
    k = v[0]
    if k in ("O", "W"):
        return (k, last_wins(v[1]))
    if k in ("L", "R"):
        return (k, [last_wins(x) for x in v[1]])
    if k == "E":
        return ("E", v[1], last_wins(v[2]))
    if k == "M":
        order, best = [], {}
        for a, b in v[1]:
            ks = val_str(a)
            if ks not in best:
                order.append((ks, a))
            best[ks] = last_wins(b)
        return ("M", [(a, best[ks]) for ks, a in order])
    return v


def has_dup_keys(v):
    k = v[0]
    if k in ("O", "W"):
        return has_dup_keys(v[1])
    if k in ("L", "R"):
        return any(has_dup_keys(x) for x in v[1])
    if k == "E":
        return has_dup_keys(v[2])
    if k == "M":
        ks = [val_str(a) for a, _ in v[1]]
        return len(set(ks)) != len(ks) or any(has_dup_keys(b) for _, b in v[1])
    return False


def dup_key_case(rng):
    """-> (ty, v): a supported type with one string-keyed / unit-variant-keyed map whose pair list repeats a key
    with different values, at the root, in a struct field, in a sequence, in a newtype variant or nested in a map"""
    r = rng
    vt = r.choice([("int", "i64"), ("int", "u8"), ("s",), ("b",), ("f64",), ("L", ("int", "i32")),
                   ("S", "P", [("x", ("int", "i32")), ("y", ("O", ("s",)))]),
                   ("E", "En", [("U", "u", None), ("N", "n", ("int", "i64")), ("T", "t", [("b",), ("s",)])]),
                   ("T", [("int", "i8"), ("s",)]), ("N", "Wrap", ("s",)), ("dt",)])
    if r.random() < 0.75:
        kt = ("s",)
        pool = r.sample(["a", "b", "id", "k-1", "", "a b", "é", "true", "1", "z"], 4)
        mk = lambda s: ("S", s)
    else:
        names = r.sample(VARIANT_POOL, 3)
        kt = ("E", "K", [(n, "u", None) for n in names])
        pool = [0, 1, 2]
        mk = lambda i: ("E", i, ("U",))
    mt = ("M", kt, vt)
    g = SerdeGen(r, max_depth=3, allow_unsupported=False)
    pattern = r.choice([[0, 0], [0, 1, 0], [0, 1, 1, 0], [1, 0, 2, 0], [0, 0, 0], [2, 1, 0, 1, 2], [0, 1, 2, 1]])
    es, seen = [], {}
    for i in pattern:
        for _ in range(6):
            x = g.value(vt, 0.0)
            if seen.get(i) is None or val_str(x) != seen[i]:
                break
        seen[i] = val_str(x)
        es.append((mk(pool[i]), x))
    mv = ("M", es)
    shape = r.randrange(6)
    if shape == 0:
        return mt, mv
    if shape == 1:
        return ("S", "S", [("a", ("int", "i32")), ("m", mt), ("z", ("s",))]), ("R", [("I", 1), mv, ("S", "end")])
    if shape == 2:
        return ("S", "S", [("l", ("L", mt))]), ("R", [("L", [mv, ("M", [(mk(pool[0]), g.value(vt, 0.0))])])])
    if shape == 3:
        return ("S", "S", [("e", ("E", "En2", [("U", "u", None), ("M", "n", mt)]))]), ("R", [("E", 1, mv)])
    if shape == 4:
        return ("M", ("s",), mt), ("M", [(("S", "outer"), mv), (("S", "other"), ("M", []))])
    return ("S", "S", [("o", ("O", mt)), ("w", ("N", "W", mt))]), ("R", [("O", mv), ("W", mv)])


# ---------------------------------------------------------------------------------------------
# the nested-None family (C07, C13): a None that is NOT handed directly to a struct field / map entry but sits
# somewhere below one — the shapes behind the repaired defect C07-tryfrom-nested-none-dropped (toml::Value::try_from
# swallowed the UnsupportedNone of the whole field).  Every route must refuse such a value (unsupported-none); the
# control shapes (a None directly in a field, also of a struct variant and of a nested struct) must be left out and
# read back.  Includes Option<Option<_>> (outside the generator's usual universe, inside the Coq theorems').
# ---------------------------------------------------------------------------------------------
NESTED_NONE_SHAPES = ["seq", "some-none", "newtype", "tuple", "tuple-struct", "newtype-variant", "tuple-variant", "some-seq",
                      "map-seq", "map-some", "newtype-newtype", "ctl-field", "ctl-struct-variant", "ctl-nested-struct"]


def nested_none_case(rng, shape=None):
    """-> (ty, v, shape): a struct with one field carrying the shape, wrapped 0..2 levels deep in further containers"""
    r = rng
    shape = shape or r.choice(NESTED_NONE_SHAPES)
    lt = r.choice([("int", "i32"), ("s",), ("b",), ("f64",), ("dt",), ("int", "u64")])
    g = SerdeGen(r, max_depth=2, allow_unsupported=False)
    x = lambda: g.value(lt)
    o = ("O", lt)
    none, some = ("N",), lambda y: ("O", y)
    if shape == "seq":
        t, v = ("L", o), ("L", r.choice([[none], [some(x()), none], [none, some(x())], [some(x()), none, some(x())]]))
    elif shape == "some-none":
        t, v = ("O", o), some(none)
    elif shape == "newtype":
        t, v = ("N", "W", o), ("W", none)
    elif shape == "newtype-newtype":
        t, v = ("N", "W", ("N", "X", o)), ("W", ("W", none))
    elif shape == "tuple":
        t, v = ("T", [o, lt]), ("L", [none, x()])
    elif shape == "tuple-struct":
        t, v = ("P", "P", [lt, o]), ("L", [x(), none])
    elif shape == "newtype-variant":
        t, v = ("E", "E", [("U", "u", None), ("N", "n", o)]), ("E", 1, none)
    elif shape == "tuple-variant":
        t, v = ("E", "E", [("T", "t", [o, lt])]), ("E", 0, ("L", [none, x()]))
    elif shape == "some-seq":
        t, v = ("O", ("L", o)), some(("L", [some(x()), none]))
    elif shape == "map-seq":
        t, v = ("M", ("s",), ("L", o)), ("M", [(("S", "k"), ("L", [some(x())])), (("S", "n"), ("L", [none]))])
    elif shape == "map-some":
        t, v = ("M", ("s",), ("N", "W", o)), ("M", [(("S", "k"), ("W", none))])
    elif shape == "ctl-field":
        t, v = o, none
    elif shape == "ctl-struct-variant":
        t, v = ("E", "E", [("S", "s", [("x", o), ("y", lt)])]), ("E", 0, ("R", [none, x()]))
    elif shape == "ctl-nested-struct":
        t, v = ("S", "In", [("x", o), ("y", ("O", o))]), ("R", [none, none])
    else:
        raise ValueError(shape)
    # the carrier: a field of the root struct next to ordinary fields, possibly below another struct / struct variant /
    # map value / sequence of structs
    def in_struct(name, t, v):
        fs = [("a", ("int", "i64")), ("f", t), ("z", ("O", ("s",)))]
        vs = [("I", r.randrange(-5, 6)), v, r.choice([("N",), ("O", ("S", "t"))])]
        return ("S", name, fs), ("R", vs)
    t, v = in_struct("Carrier", t, v)
    for lvl in range(r.choice([0, 0, 1, 1, 2])):
        w = r.choice(["struct", "struct-variant", "map", "seq", "some", "newtype"])
        if w == "struct":
            t, v = in_struct("Outer%d" % lvl, t, v)
        elif w == "struct-variant":
            t, v = ("E", "Ev%d" % lvl, [("V", "s", [("p", t)])]), ("E", 0, ("R", [v]))
        elif w == "map":
            if strip_newtypes(t)[0] != "O":      # maps whose values are Options are outside has_type (S4)
                t, v = ("M", ("s",), t), ("M", [(("S", "m"), v)])
        elif w == "seq":
            t, v = ("L", t), ("L", [v])
        elif w == "some":
            if t[0] != "O":
                t, v = ("O", t), ("O", v)
        else:
            t, v = ("N", "Nt%d" % lvl, t), ("W", v)
    if t[0] != "S":
        t, v = ("S", "Root", [("r", t)]), ("R", [v])
    return t, v, shape
