#!/usr/bin/env python3
"""scan_api.py — inventory of the public container / editing / construction API (DESIGN.md section 8).

Counterpart of lib/scan_sites.py for the operation universes of C16 (containers), C08 (edits) and C06 (built trees):
a property whose universe does not contain an entry point says nothing about it.  This scanner lists, for the files
below (test modules cut off), every
  * `pub fn` of an inherent impl and every free `pub fn`,
  * method of the public traits TableLike and Index (declaration and every impl),
  * fn of an impl of Index / IndexMut / Extend / FromIterator / IntoIterator / From / Display / FromStr,
with file, impl target, trait, name and the signature spelled without layout (comments, line breaks, white space and
attributes do not matter).  The committed inventory coq/Model/api_coverage.json maps each to
  ops     the operation name(s) of lib/props/c16.py / c08.py / c06.py whose harness code calls it,
  model   the model function (coq/Model/Containers.v / Edit.v / Build.v / Encode.v ...) if there is one,
  class   one of CLASSES below,
  note    one line: why, or "gap".
A public function that appears, disappears or changes its signature makes the inventory differ: the tie is reported
broken (obligation `api-inventory` of lib/props/c16.py) — a new API means the universes must be revisited.

  scan_api.py            print the current inventory as JSON
  scan_api.py --diff     compare with coq/Model/api_coverage.json, print differences, exit 1 if any
  scan_api.py --update   rewrite coq/Model/api_coverage.json keeping the existing annotations
  scan_api.py --annotate like --update, but (re)classify every function with the rules of lib/api_rules.py
  scan_api.py --counts   counts per class of the committed inventory
"""
import json, os, re, sys

sys.path.insert(0, os.path.dirname(os.path.abspath(__file__)))
import gen_consts
from scan_sites import cut_tests, despace, ATTR

REPO = os.environ.get("VERIF_REPO", "/repo")
HERE = os.path.dirname(os.path.abspath(__file__))
INVENTORY = os.path.join(os.path.dirname(HERE), "coq", "Model", "api_coverage.json")

FILES = [
    "crates/toml_edit/src/table.rs", "crates/toml_edit/src/inline_table.rs", "crates/toml_edit/src/array.rs",
    "crates/toml_edit/src/array_of_tables.rs", "crates/toml_edit/src/item.rs", "crates/toml_edit/src/value.rs",
    "crates/toml_edit/src/key.rs", "crates/toml_edit/src/document.rs", "crates/toml_edit/src/index.rs",
    "crates/toml_edit/src/repr.rs",
    "crates/toml/src/map.rs", "crates/toml/src/table.rs", "crates/toml/src/value.rs",
]
# impls of these traits are API (every fn in them); of the crate's own public traits also the declaration
TRAITS = ("TableLike", "Index", "IndexMut", "Extend", "FromIterator", "IntoIterator", "From", "Display", "FromStr")
OWN_TRAITS = ("TableLike", "Index")

# every function is in exactly one class:
#   modelled+proved        a Coq model function transcribes it and a C16 / C08 / C06 theorem speaks about it; the harness op(s) tie the two
#   exercised-by-harness   an operation of a universe calls it on the implementation and an oracle (python reference) judges the
#                          result; no Coq model function of its own (oracle-level)
#   read-only-accessor     does not change the tree; what it returns is (part of) what an observation function of a harness prints
#                          (dump / show / to_string / fragments), or it is a plain getter of a field those print
#   not-covered            no operation of any universe reaches it: `note` says why that is acceptable, or "gap"
CLASSES = ("modelled+proved", "exercised-by-harness", "read-only-accessor", "not-covered")


def split_top(s, sep):
    """split at `sep` (a word like ' for ' / ' where ') outside <>, (), []"""
    depth, i, out, last = 0, 0, [], 0
    while i < len(s):
        c = s[i]
        if c in "<([":
            depth += 1
        elif c in ">)]" and not (c == ">" and i > 0 and s[i - 1] in "-="):
            depth = max(0, depth - 1)
        elif depth == 0 and s.startswith(sep, i):
            out.append(s[last:i]); last = i + len(sep); i = last
            continue
        i += 1
    out.append(s[last:])
    return out


def strip_generics(s):
    """drop a leading `<...>`"""
    s = s.strip()
    if not s.startswith("<"):
        return s
    depth = 0
    for i, c in enumerate(s):
        if c == "<":
            depth += 1
        elif c == ">" and not (i > 0 and s[i - 1] in "-="):
            depth -= 1
            if depth == 0:
                return s[i + 1:].strip()
    return s


def base_name(ty):
    """`std::fmt::Display` -> Display, `ops::IndexMut<I>` -> IndexMut, `&'s Table` -> &Table, `Entry<'a>` -> Entry"""
    ty = ty.strip()
    ref = ""
    m = re.match(r"&\s*('[a-z_]+\s*)?(mut\s+)?", ty)
    if m and m.group(0):
        ref = "&mut " if m.group(2) else "&"
        ty = ty[len(m.group(0)):]
    head = re.split(r"[<\s(]", ty, 1)[0]
    return ref + head.split("::")[-1]


def impl_header(h):
    """'impl<..> Trait<..> for Target<..> where ..' -> (target, trait | None, trait with its parameters | None)"""
    h = strip_generics(h[len("impl"):])
    h = split_top(h, " where ")[0]
    parts = split_top(h, " for ")
    if len(parts) == 2:
        return base_name(parts[1]), base_name(parts[0]), despace(parts[0].strip())
    return base_name(parts[0]), None, None


def walk(text):
    """-> [(context stack, header text, has_body)] for every `fn` header; context entries are (kind, info)"""
    out, stack, cur, depth = [], [], [], 0
    i, n = 0, len(text)

    def header():
        return re.sub(r"\s+", " ", ATTR.sub(" ", "".join(cur))).strip()

    while i < n:
        c = text[i]
        if c == '"' or (c in "br" and re.match(r'b?r#*"|b"', text[i:i + 8])):
            m = re.match(r'b?r(#*)"', text[i:i + 40])
            if m:
                end = text.find('"' + m.group(1), i + len(m.group(0)))
                j = n if end < 0 else end + 1 + len(m.group(1))
            else:
                j = i + (2 if c == "b" else 1)
                while j < n and text[j] != '"':
                    j += 2 if text[j] == "\\" else 1
                j += 1
            cur.append(text[i:j]); i = j
            continue
        if c == "'":
            m = re.match(r"'(?:\\x[0-9a-fA-F]{2}|\\u\{[0-9a-fA-F_]+\}|\\.|[^'\\\n])'", text[i:i + 16])
            if m:
                cur.append(m.group(0)); i += len(m.group(0))
                continue
        if c in "([":
            depth += 1
        elif c in ")]":
            depth = max(0, depth - 1)
        if c == "{":
            h = header()
            m = re.match(r"^((?:pub(?:\([a-z: ]+\))? )?(?:default )?(?:const )?(?:async )?(?:unsafe )?)(fn|impl|trait|mod)\b", h)
            if m and m.group(2) == "fn":
                out.append((list(stack), h, True))
                stack.append(("fn", None))
            elif m and m.group(2) == "impl":
                stack.append(("impl", impl_header(h[len(m.group(1)):])))
            elif m and m.group(2) == "trait":
                nm = re.match(r"trait\s+([A-Za-z0-9_]+)", h[len(m.group(1)):]).group(1)
                stack.append(("trait", (nm, m.group(1).strip() == "pub")))
            elif m and m.group(2) == "mod":
                stack.append(("mod", h))
            else:
                stack.append(("block", None))
            cur = []; depth = 0
        elif c == "}":
            if stack:
                stack.pop()
            cur = []; depth = 0
        elif c == ";" and depth == 0:
            h = header()
            if stack and stack[-1][0] == "trait" and re.match(r"^(?:unsafe )?fn\b", h):
                out.append((list(stack), h, False))
            cur = []
        else:
            cur.append(c)
        i += 1
    return out


def scan_file(rel):
    text = open(os.path.join(REPO, rel), encoding="utf-8").read()
    text = gen_consts.strip_comments(cut_tests(text))
    out = []
    for stack, h, _body in walk(text):
        if any(k == "fn" for k, _ in stack):
            continue                                    # a nested fn / closure body
        ctx = next(((k, v) for k, v in reversed(stack) if k in ("impl", "trait")), None)
        m = re.search(r"\bfn\s+([A-Za-z0-9_]+)", h)
        name = m.group(1)
        is_pub = bool(re.match(r"^pub (?!\()|^pub$", h)) and not h.startswith("pub(")
        h = split_top(h, " where ")[0] + ("where " + split_top(h, " where ")[1] if len(split_top(h, " where ")) > 1 else "")
        sig = despace(h[h.index("fn "):])
        if ctx is None:
            if is_pub:
                out.append({"file": rel, "target": "<free>", "trait": "", "name": name, "sig": sig})
        elif ctx[0] == "trait":
            nm, pub = ctx[1]
            if pub and nm in OWN_TRAITS:
                out.append({"file": rel, "target": "trait " + nm, "trait": nm, "name": name, "sig": sig})
        else:
            target, tr, trfull = ctx[1]
            if tr is None:
                if is_pub:
                    out.append({"file": rel, "target": target, "trait": "", "name": name, "sig": sig})
            elif tr in TRAITS:
                out.append({"file": rel, "target": target, "trait": trfull, "name": name, "sig": sig})
    return out


def scan():
    inv = []
    for rel in FILES:
        inv.extend(scan_file(rel))
    return inv


def key(e):
    return (e["file"], e["target"], e["trait"], e["name"], e["sig"])


def show(k):
    return "%s: %s%s::%s  %s" % (k[0], ("<%s> for " % k[2]) if k[2] else "", k[1], k[3], k[4])


def committed():
    return json.load(open(INVENTORY))["functions"]


def compare():
    """-> list of human-readable differences between the source and the committed inventory"""
    from collections import Counter
    try:
        cur = scan()
    except Exception as e:
        return ["api scanner could not read the sources: %r" % e]
    c, o = Counter(key(e) for e in cur), Counter(key(e) for e in committed())
    added, removed = list((c - o).elements()), list((o - c).elements())
    # a changed signature shows as one removed + one added entry of the same (file, target, trait, name)
    return (["new public function %s" % show(a) for a in added] + ["public function gone %s" % show(r) for r in removed])


def unclassified(inv=None):
    inv = committed() if inv is None else inv
    return [e for e in inv if e.get("class") not in CLASSES or not e.get("note")
            or (e.get("class") == "modelled+proved" and not e.get("model"))
            or (e.get("class") in ("modelled+proved", "exercised-by-harness") and not e.get("ops"))]


def class_counts(inv=None):
    from collections import Counter
    inv = committed() if inv is None else inv
    c = Counter(e.get("class") if e.get("class") in CLASSES else "unclassified" for e in inv)
    out = {"total": len(inv)}
    for k in CLASSES + ("unclassified",):
        out[k] = c.get(k, 0)
    out["not-covered:gap"] = sum(1 for e in inv if e.get("class") == "not-covered" and e.get("note", "").startswith("gap"))
    return out


def write(cur):
    json.dump({"comment": "generated by lib/scan_api.py --update / --annotate (rules: lib/api_rules.py); `class` is one of " + ", ".join(CLASSES)
                          + " (see lib/scan_api.py); `ops` = operation names of lib/props/c16.py / c08.py / c06.py (prefixed with the property) whose "
                          "harness code calls the function; `model` = the Coq model function; `note` = one line, starting with `gap` where an "
                          "uncovered function mutates or constructs",
               "functions": cur}, open(INVENTORY, "w"), indent=1)
    print("%d functions written, %d without a complete classification" % (len(cur), len(unclassified(cur))))


def main(a):
    if "--diff" in a:
        d = compare()
        for l in d:
            print(l)
        return 1 if d else 0
    if "--counts" in a:
        print(json.dumps(class_counts(), indent=1))
        return 0
    cur = scan()
    if "--annotate" in a:
        import api_rules
        for e in cur:
            e.update(api_rules.annotate(e) or {"ops": "", "model": "", "class": "", "note": ""})
        write(cur)
        return 0
    if "--update" in a:
        ann, by_name = {}, {}
        if os.path.exists(INVENTORY):
            for e in committed():
                v = {f: e.get(f, "") for f in ("ops", "model", "class", "note")}
                ann[key(e)] = v
                by_name.setdefault(key(e)[:4], v)
        for e in cur:
            # an entry whose signature changed keeps its annotation (the --diff mode still reports the change until --update is run)
            e.update(ann.get(key(e)) or by_name.get(key(e)[:4]) or {"ops": "", "model": "", "class": "", "note": ""})
        write(cur)
        return 0
    json.dump(cur, sys.stdout, indent=1)
    return 0


if __name__ == "__main__":
    sys.exit(main(sys.argv[1:]))
