#!/usr/bin/env python3
"""scan_sites.py — inventory of panic / unsafe sites in the files C04 is anchored in (DESIGN.md 5.2).

The claim "no input reaches a panic" is only as good as the list of panic sites the model has a `Panic site`
branch for.  This scanner lists, per anchored file and per function (test modules cut off), every
unwrap / expect / unreachable! / panic! / assert* / debug_assert* / unsafe / from_utf8_unchecked / index or
slice expression, with a normalised source line.  The committed inventory coq/Model/sites.json maps each to the
model's `site` constructor (Base/Winnow.v) or says why it needs none.  A site that appears, disappears, changes
or moves to another function makes the inventory differ: the tie is reported broken (and the check then
searches for a failing input as usual).

  scan_sites.py            print the current inventory as JSON
  scan_sites.py --diff     compare with coq/Model/sites.json, print differences, exit 1 if any
  scan_sites.py --update   rewrite coq/Model/sites.json keeping existing `model` annotations
"""
import json, os, re, sys

REPO = os.environ.get("VERIF_REPO", "/repo")
HERE = os.path.dirname(os.path.abspath(__file__))
INVENTORY = os.path.join(os.path.dirname(HERE), "coq", "Model", "sites.json")

FILES = [
    "crates/toml_edit/src/parser/mod.rs", "crates/toml_edit/src/parser/trivia.rs", "crates/toml_edit/src/parser/strings.rs",
    "crates/toml_edit/src/parser/numbers.rs", "crates/toml_edit/src/parser/datetime.rs", "crates/toml_edit/src/parser/key.rs",
    "crates/toml_edit/src/parser/value.rs", "crates/toml_edit/src/parser/array.rs", "crates/toml_edit/src/parser/inline_table.rs",
    "crates/toml_edit/src/parser/document.rs", "crates/toml_edit/src/parser/state.rs", "crates/toml_edit/src/parser/error.rs",
    "crates/toml_edit/src/raw_string.rs", "crates/toml_edit/src/error.rs", "crates/toml_edit/src/de/mod.rs",
    "crates/toml_datetime/src/datetime.rs",
]

KINDS = [
    ("unwrap", re.compile(r"\.unwrap\(\)|\.unwrap_unchecked\(")),
    ("expect", re.compile(r"\.expect\(")),
    ("unreachable", re.compile(r"\bunreachable!")),
    ("panic", re.compile(r"\bpanic!|\btodo!|\bunimplemented!")),
    ("debug_assert", re.compile(r"\bdebug_assert(_eq|_ne)?!")),
    ("assert", re.compile(r"(?<![_a-z])assert(_eq|_ne)?!")),
    ("unsafe", re.compile(r"\bunsafe\b")),
    ("index", re.compile(r"[A-Za-z0-9_\)\]]\[[^\]\n]*\]")),
]
FN = re.compile(r"\bfn\s+([A-Za-z0-9_]+)")
NOT_INDEX = re.compile(r"^\s*#!?\[|\[u8; ?\d+\]|vec!\[")
TYPE_BRACKET = re.compile(r"&(?:'[a-z]+ )?(?:mut )?\[[A-Za-z0-9_:<>&' ]*\]|: ?\[[^\]]*\]|-> ?\[[^\]]*\]|<\[[^\]]*\]>")


def strip_comment(line):
    # good enough for this code base: no `//` inside string literals on site lines except messages after the site
    i = line.find("//")
    return line if i < 0 else line[:i]


def scan_file(rel):
    path = os.path.join(REPO, rel)
    text = open(path, encoding="utf-8").read()
    cut = text.find("#[cfg(test)]\n#[cfg(feature")
    if cut < 0:
        cut = text.find("#[cfg(test)]\nmod test")
    if cut >= 0:
        text = text[:cut]
    out = []
    fn = "<top>"
    for raw in text.split("\n"):
        line = strip_comment(raw)
        m = FN.search(line)
        if m:
            fn = m.group(1)
        norm = re.sub(r"\s+", " ", line.strip())
        if not norm:
            continue
        for kind, rx in KINDS:
            if kind == "index":
                if NOT_INDEX.search(line):
                    continue
                hits = [h for h in rx.findall(TYPE_BRACKET.sub("", line))]
                if not hits:
                    continue
            elif not rx.search(line):
                continue
            if kind == "assert" and "debug_assert" in line and not re.search(r"(?<![_a-z])assert(_eq|_ne)?!", line.replace("debug_assert", "")):
                continue
            out.append({"file": rel, "fn": fn, "kind": kind, "text": norm[:160]})
    return out


def scan():
    inv = []
    for rel in FILES:
        inv.extend(scan_file(rel))
    return inv


def key(e):
    return (e["file"], e["fn"], e["kind"], e["text"])


def diff(cur, old):
    from collections import Counter
    c, o = Counter(key(e) for e in cur), Counter(key(e) for e in old)
    added = list((c - o).elements())
    removed = list((o - c).elements())
    return added, removed


def compare():
    """-> list of human-readable differences between the source and the committed inventory"""
    try:
        cur = scan()
    except Exception as e:  # a file moved away etc.
        return ["site scanner could not read the sources: %r" % e]
    old = json.load(open(INVENTORY))["sites"]
    added, removed = diff(cur, old)
    return (["new site %s:%s [%s] %s" % a for a in added] + ["site gone %s:%s [%s] %s" % r for r in removed])


def main(a):
    if "--diff" in a:
        d = compare()
        for l in d:
            print(l)
        return 1 if d else 0
    cur = scan()
    if "--update" in a:
        ann = {}
        if os.path.exists(INVENTORY):
            for e in json.load(open(INVENTORY))["sites"]:
                ann[key(e)] = e.get("model", "")
        for e in cur:
            e["model"] = ann.get(key(e), "")
        json.dump({"comment": "generated by lib/scan_sites.py --update; `model` = the Base/Winnow.v site constructor guarding this site in the model, or why none is needed",
                   "sites": cur}, open(INVENTORY, "w"), indent=1)
        print("%d sites written" % len(cur))
        return 0
    json.dump(cur, sys.stdout, indent=1)
    return 0


if __name__ == "__main__":
    sys.exit(main(sys.argv[1:]))
