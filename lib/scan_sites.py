#!/usr/bin/env python3
"""scan_sites.py — inventory of panic / unsafe sites in the files C04 is anchored in (DESIGN.md 5.2).

The claim "no input reaches a panic" is only as good as the list of panic sites the model has a `Panic site`
branch for.  This scanner lists, per anchored file and per function (test modules cut off), every
unwrap / expect / unreachable! / panic! / assert* / debug_assert* / unsafe / from_utf8_unchecked / RefCell
borrow_mut / index or slice expression, with the statement (match arm, field) it stands in, spelled without
layout: comments, line breaks, white space, attributes and trailing commas do not matter, so a reformatted file has the
same inventory; any other change of a statement that holds a site does.  The committed inventory coq/Model/sites.json maps each to the
model's `site` constructor (Base/Winnow.v) or says why it needs none.  A site that appears, disappears, changes
or moves to another function makes the inventory differ: the tie is reported broken (and the check then
searches for a failing input as usual).

  scan_sites.py            print the current inventory as JSON
  scan_sites.py --diff     compare with coq/Model/sites.json, print differences, exit 1 if any
  scan_sites.py --update   rewrite coq/Model/sites.json keeping existing `model` annotations
"""
import json, os, re, sys

sys.path.insert(0, os.path.dirname(os.path.abspath(__file__)))
import gen_consts

REPO = os.environ.get("VERIF_REPO", "/repo")
HERE = os.path.dirname(os.path.abspath(__file__))
INVENTORY = os.path.join(os.path.dirname(HERE), "coq", "Model", "sites.json")

FILES = [
    "crates/toml_edit/src/parser/mod.rs", "crates/toml_edit/src/parser/trivia.rs", "crates/toml_edit/src/parser/strings.rs",
    "crates/toml_edit/src/parser/numbers.rs", "crates/toml_edit/src/parser/datetime.rs", "crates/toml_edit/src/parser/key.rs",
    "crates/toml_edit/src/parser/value.rs", "crates/toml_edit/src/parser/array.rs", "crates/toml_edit/src/parser/inline_table.rs",
    "crates/toml_edit/src/parser/document.rs", "crates/toml_edit/src/parser/table.rs", "crates/toml_edit/src/parser/state.rs",
    "crates/toml_edit/src/parser/error.rs",
    "crates/toml_edit/src/raw_string.rs", "crates/toml_edit/src/error.rs", "crates/toml_edit/src/de/mod.rs",
    "crates/toml_datetime/src/datetime.rs",
    # everything a caller can do with what was returned (C04, second sentence): print, debug-print, clone, drop,
    # turn back into text, deserialize, render the error
    "crates/toml_edit/src/repr.rs", "crates/toml_edit/src/encode.rs", "crates/toml_edit/src/key.rs", "crates/toml_edit/src/value.rs",
    "crates/toml_edit/src/item.rs", "crates/toml_edit/src/table.rs", "crates/toml_edit/src/inline_table.rs", "crates/toml_edit/src/array.rs",
    "crates/toml_edit/src/array_of_tables.rs", "crates/toml_edit/src/document.rs", "crates/toml_edit/src/internal_string.rs",
    "crates/toml_edit/src/index.rs", "crates/toml_edit/src/visit.rs", "crates/toml_edit/src/visit_mut.rs", "crates/toml_edit/src/lib.rs",
    "crates/toml_edit/src/de/value.rs", "crates/toml_edit/src/de/table.rs", "crates/toml_edit/src/de/array.rs", "crates/toml_edit/src/de/key.rs",
    "crates/toml_edit/src/de/datetime.rs", "crates/toml_edit/src/de/spanned.rs", "crates/toml_edit/src/de/table_enum.rs",
    "crates/toml_edit/src/ser/mod.rs", "crates/toml_edit/src/ser/value.rs", "crates/toml_edit/src/ser/map.rs", "crates/toml_edit/src/ser/array.rs",
    "crates/toml_edit/src/ser/key.rs", "crates/toml_edit/src/ser/pretty.rs",
    "crates/toml/src/de.rs", "crates/toml/src/ser.rs", "crates/toml/src/value.rs", "crates/toml/src/map.rs", "crates/toml/src/table.rs",
    "crates/toml/src/fmt.rs", "crates/toml/src/edit.rs", "crates/toml/src/macros.rs", "crates/toml/src/lib.rs",
    "crates/toml_write/src/string.rs", "crates/toml_write/src/key.rs", "crates/toml_write/src/value.rs", "crates/toml_write/src/write.rs",
    "crates/toml_write/src/lib.rs",
    "crates/serde_spanned/src/spanned.rs", "crates/serde_spanned/src/lib.rs", "crates/toml_datetime/src/lib.rs",
]

KINDS = [
    ("unwrap", re.compile(r"\.unwrap\(\)|\.unwrap_unchecked\(")),
    ("expect", re.compile(r"\.expect\(")),
    ("unreachable", re.compile(r"\bunreachable!")),
    ("panic", re.compile(r"\bpanic!|\btodo!|\bunimplemented!")),
    ("debug_assert", re.compile(r"\bdebug_assert(_eq|_ne)?!")),
    ("assert", re.compile(r"(?<![_a-z])assert(_eq|_ne)?!")),
    ("unsafe", re.compile(r"\bunsafe\b")),
    ("refcell", re.compile(r"\.borrow_mut\(\)")),
    ("index", re.compile(r"[A-Za-z0-9_\)\]]\[[^\]]*\]")),
]
FN = re.compile(r"\bfn\s+([A-Za-z0-9_]+)")
TYPE_BRACKET = re.compile(r"&(?:'[a-z_]+ ?)?(?:mut ?)?\[[A-Za-z0-9_:<>&' ;]*\]|: ?\[[^\]]*\]|-> ?\[[^\]]*\]|<\[[^\]]*\]>|\[u8; ?\d+\]")


ITEM = re.compile(r"^(pub(\([a-z]+\))? )?(unsafe )?(fn|impl|struct|enum|mod|const|static|trait|type|use|macro_rules!)\b")


def cut_tests(text):
    """cut the file at the first top-level `#[cfg(test)]` / `#[test]` attribute line (column 0).  In the anchored
    files the unit tests come last; this is checked, not assumed: every top-level item after the cut must carry a
    `#[cfg(test)]` or `#[test]` attribute of its own, otherwise nothing is cut (the test sites then show up as new
    sites and the tie is reported broken, which is the conservative direction).  Indented `#[cfg(test)]` items are
    never cut."""
    lines = text.split("\n")
    marks = ("#[cfg(test)]", "#[test]")
    first = next((i for i, l in enumerate(lines) if l.rstrip() in marks), None)
    if first is None:
        return text
    attrs = []
    for l in lines[first:]:
        if l.startswith("#["):
            attrs.append(l.rstrip())
            continue
        if ITEM.match(l) and not any(a in marks for a in attrs):
            return text
        if l.strip() and not l.startswith("//"):
            attrs = []
    return "\n".join(lines[:first])


ATTR = re.compile(r"#!?\[(?:[^\[\]]|\[[^\[\]]*\])*\]")


def segments(text):
    """split comment-free source into statement-sized pieces, independent of line layout: a piece ends at `{`, at `}`,
    and at `;` or `,` outside parentheses / brackets (so a `let`, an expression statement, one match arm, one field).
    String and char literals are skipped over.  -> list of piece texts, in source order"""
    out, cur, depth = [], [], 0
    i, n = 0, len(text)
    while i < n:
        c = text[i]
        if c == '"' or (c in "br" and re.match(r'b?r#*"|b"', text[i:i + 8])):
            m = re.match(r'b?r(#*)"', text[i:i + 40])
            if m:
                end = text.find('"' + m.group(1), i + len(m.group(0)))
                j = n if end < 0 else end + 1 + len(m.group(1))
            else:
                j = i + (2 if c == "b" else 1)
                while j < n and text[j] != '"':
                    j += 2 if text[j] == "\\" else 1
                j += 1
            cur.append(text[i:j]); i = j
            continue
        if c == "'":
            m = re.match(r"'(?:\\x[0-9a-fA-F]{2}|\\u\{[0-9a-fA-F_]+\}|\\.|[^'\\\n])'", text[i:i + 16])
            if m:
                cur.append(m.group(0)); i += len(m.group(0))
                continue
        if c in "([":
            depth += 1
        elif c in ")]":
            depth = max(0, depth - 1)
        if c in "{}" or (c in ";," and depth == 0):
            if c in "{}":
                depth = 0
            out.append("".join(cur)); cur = []
        else:
            cur.append(c)
        i += 1
    out.append("".join(cur))
    return out


def despace(t):
    """white space kept only between two word characters; a trailing comma before a closing bracket dropped"""
    t = re.sub(r"(?<![A-Za-z0-9_]) | (?![A-Za-z0-9_])", "", t)
    return re.sub(r",([)\]])", r"\1", t)


def scan_file(rel):
    path = os.path.join(REPO, rel)
    text = open(path, encoding="utf-8").read()
    text = gen_consts.strip_comments(cut_tests(text))
    out = []
    fn = "<top>"
    pieces = segments(text)
    for idx, piece in enumerate(pieces):
        spaced = re.sub(r"\s+", " ", ATTR.sub(" ", piece)).strip()      # layout reduced to single spaces: what the kinds are looked for in
        if not spaced:
            continue
        m = FN.search(spaced)
        if m:
            fn = m.group(1)
        norm = despace(spaced)                                            # the layout-free spelling: what identifies the site
        for kind, rx in KINDS:
            if kind == "index":
                hay = TYPE_BRACKET.sub("", spaced)
            elif kind == "assert":
                hay = re.sub(r"debug_assert(_eq|_ne)?!", "", spaced)
            else:
                hay = spaced
            hits = list(rx.finditer(hay))
            if not hits:
                continue
            # the piece, cut to a window around the first hit when long; `xN` when the kind occurs N times in it
            pos = max(0, norm.find(despace(hits[0].group(0))))
            lo = max(0, pos - 70) if len(norm) > 170 else 0
            txt = norm[lo:lo + 170] + (" x%d" % len(hits) if len(hits) > 1 else "")
            if kind == "unsafe" and re.search(r"\bunsafe$", norm):
                # an `unsafe {` block: what it does is the next piece
                nxt = next((despace(re.sub(r"\s+", " ", q).strip()) for q in pieces[idx + 1:] if q.strip()), "")
                txt += "{" + nxt[:100]
            out.append({"file": rel, "fn": fn, "kind": kind, "text": txt})
    return out


def scan():
    inv = []
    for rel in FILES:
        inv.extend(scan_file(rel))
    return inv


# every site is in exactly one class (DESIGN.md 5.2):
#   modelled                      the Coq model has a `Panic site` (or checked-variant) branch for it and a theorem discharges it
#   unreachable-by-construction   a guard in the same function, or an invariant of the values the library itself builds, excludes it
#   api-contract                  panics only when a caller breaks a documented contract of a mutating / indexing / serde-protocol API;
#                                 not reachable from parse, print, debug-print, clone, drop, to-text, deserialize or error rendering
#   checked-by-fuzz-only          no model branch and no local argument: covered only by the C04 fuzz stream (harness/src/fuzz.rs)
CLASSES = ("modelled", "unreachable-by-construction", "api-contract", "checked-by-fuzz-only")


def class_counts(inv=None):
    """-> {"total": n, <class>: n, ..., "unclassified": n} for the committed inventory"""
    from collections import Counter
    inv = json.load(open(INVENTORY))["sites"] if inv is None else inv
    c = Counter(e.get("class") if e.get("class") in CLASSES and e.get("model") else "unclassified" for e in inv)
    out = {"total": len(inv)}
    for k in CLASSES + ("unclassified",):
        out[k] = c.get(k, 0)
    return out


def unclassified(inv=None):
    inv = json.load(open(INVENTORY))["sites"] if inv is None else inv
    return [e for e in inv if e.get("class") not in CLASSES or not e.get("model")]


def key(e):
    return (e["file"], e["fn"], e["kind"], e["text"])


def diff(cur, old):
    from collections import Counter
    c, o = Counter(key(e) for e in cur), Counter(key(e) for e in old)
    added = list((c - o).elements())
    removed = list((o - c).elements())
    return added, removed


def compare():
    """-> list of human-readable differences between the source and the committed inventory"""
    try:
        cur = scan()
    except Exception as e:  # a file moved away etc.
        return ["site scanner could not read the sources: %r" % e]
    old = json.load(open(INVENTORY))["sites"]
    added, removed = diff(cur, old)
    return (["new site %s:%s [%s] %s" % a for a in added] + ["site gone %s:%s [%s] %s" % r for r in removed])


def main(a):
    if "--diff" in a:
        d = compare()
        for l in d:
            print(l)
        return 1 if d else 0
    cur = scan()
    if "--update" in a:
        ann = {}
        if os.path.exists(INVENTORY):
            for e in json.load(open(INVENTORY))["sites"]:
                ann[key(e)] = (e.get("class", ""), e.get("model", ""))
        for e in cur:
            e["class"], e["model"] = ann.get(key(e), ("", ""))
        json.dump({"comment": "generated by lib/scan_sites.py --update; `class` is one of " + ", ".join(CLASSES) + "; `model` = the model's "
                              "site constructor and the lemma family that discharges it (class modelled), or the reason no model branch is needed",
                   "sites": cur}, open(INVENTORY, "w"), indent=1)
        print("%d sites written, %d without a class" % (len(cur), sum(1 for e in cur if e["class"] not in CLASSES)))
        return 0
    json.dump(cur, sys.stdout, indent=1)
    return 0


if __name__ == "__main__":
    sys.exit(main(sys.argv[1:]))
