#!/usr/bin/env python3
"""coverage_run.py — MEASURED source coverage of the library under the correspondence corpora.

Instrumentation, not a check: nothing here is wired into ./check.  It answers "which entry points and branches of
crates/{toml,toml_edit,toml_datetime,toml_write,serde_spanned}/src does no property exercise".

  python3 lib/coverage_run.py --tier quick            build, replay, merge, report; prints the summary table
  python3 lib/coverage_run.py --report-only           re-read the merged profile of the last run (that run must have had --keep)
  options: --props C04,C07   only these modules     --work DIR   scratch directory (default /root/cov-work)
           --cfg-matrix      all quick configurations of harness_cfg (default: the `default` one only)
           --no-macro        skip C19 (compiles generated programs; the slowest part)
           --keep            keep the scratch directory (instrumented target dirs are ~3 GB)

How: the harness crates (harness, harness_cfg, harness_macro) are COPIED into the scratch directory and built there with
`cargo +nightly build` and RUSTFLAGS="-C instrument-coverage --cfg toml_rs_toml_verif" (the nightly toolchain ships
llvm-profdata / llvm-cov of the matching LLVM under lib/rustlib/*/bin); no instrumented object ever lands in
/verif/harness*/target*.  Every property module is then driven the way lib/runner.py drives it — gen_cases(Random(1), tier),
the case lines through the module's HARNESS binary, the feature builds named in EXTRA_HARNESS (`po`), the module's own
routed batches (oracle() is called on every line so that lazily routed cases run), obligations() — with `common.sh`,
`common.harness_bin`, `common.build_harness` redirected to the instrumented builds and LLVM_PROFILE_FILE set per process.
Profile variants of the same source (dev, dbg0) are not rebuilt: they add no source coverage.
Outputs (under <verif>/coverage/): summary.json (per file and per crate: functions / regions / lines / branches,
total and hit), gaps.json / GAPS.md (functions with zero hits, tagged), TABLE.md (the table for DESIGN.md), uncovered.txt
(per file: the lines never executed and the branches with a side never taken).
"""
import glob, importlib, json, os, random, re, shutil, subprocess, sys, time

HERE = os.path.dirname(os.path.abspath(__file__))
sys.path.insert(0, HERE)
sys.path.insert(0, os.path.join(HERE, "props"))
import common                                                # noqa: E402

CRATES = ("toml", "toml_edit", "toml_datetime", "toml_write", "serde_spanned")
MODULES = ["c01", "c02", "c03", "c04", "c05", "c06", "c07", "c08", "c09", "c10", "c11", "c12", "c13", "c14", "c14serde",
           "c15", "c16", "c17", "c18", "c19", "c20"]
OUT = os.path.join(common.VERIF, "coverage")
TOOLCHAIN = os.environ.get("COV_TOOLCHAIN", "nightly")
# branch coverage is a nightly-only option of rustc; COV_BRANCH=0 measures without it (works on stable toolchains that ship llvm-tools)
BRANCH_FLAGS = " -Zcoverage-options=branch" if os.environ.get("COV_BRANCH", "1") == "1" else ""


def log(*a):
    print("[coverage]", *a, file=sys.stderr, flush=True)


def llvm_tool(name):
    sysroot = subprocess.check_output(["rustc", "+" + TOOLCHAIN, "--print", "sysroot"]).decode().strip()
    hits = glob.glob(os.path.join(sysroot, "lib", "rustlib", "*", "bin", name))
    if not hits:
        sys.exit("no %s under %s (rustup component add llvm-tools --toolchain %s)" % (name, sysroot, TOOLCHAIN))
    return hits[0]


# ---------------------------------------------------------------------------------------------------------------
# scratch copy + redirection of every build / binary lookup
# ---------------------------------------------------------------------------------------------------------------
def prepare(work):
    os.makedirs(work, exist_ok=True)
    for d in ("harness", "harness_cfg", "harness_macro"):
        dst = os.path.join(work, d)
        os.makedirs(dst, exist_ok=True)
        subprocess.check_call(["rsync", "-a", "--delete", "--exclude", "target*", "--exclude", "Cargo.lock",
                               os.path.join(common.VERIF, d) + "/", dst + "/"])
        ct = os.path.join(dst, "Cargo.toml")
        data = open(ct).read()
        # the tree under test: /repo in the committed manifests; a lab copy has its own path written in already
        data = re.sub(r'path = "[^"]*?/crates/', 'path = "%s/crates/' % common.REPO.rstrip("/"), data)
        open(ct, "w").write(data)
    os.makedirs(os.path.join(work, "prof"), exist_ok=True)
    os.makedirs(os.path.join(work, "prof-build"), exist_ok=True)


def redirect(work):
    real_sh = common.sh
    built = set()

    def sh(cmd, cwd=None, timeout=None, env=None, input_bytes=None):
        if isinstance(cmd, list) and cmd[:2] == ["cargo", "build"]:
            cmd = ["cargo", "+" + TOOLCHAIN] + cmd[1:]
            env = dict(env or {})
            flags = env.get("RUSTFLAGS", "")
            if common.GUARD_CFG not in flags:
                flags += " --cfg %s" % common.GUARD_CFG
            env["RUSTFLAGS"] = (flags + " -C instrument-coverage" + BRANCH_FLAGS).strip()
            # build scripts and proc macros are instrumented too: keep their profiles out of the measurement
            env["LLVM_PROFILE_FILE"] = os.path.join(work, "prof-build", "%p-%8m.profraw")
            timeout = max(timeout or 0, 3600)
        return real_sh(cmd, cwd=cwd, timeout=timeout, env=env, input_bytes=input_bytes)

    def harness_bin(profile="release", features=(), bin_name="core"):
        return os.path.join(common.HARNESS_DIR, common._tdir("release", tuple(features)), "release", bin_name)

    def build_harness(profile="release", features=(), timeout=3600, bin_name="core"):
        key = (tuple(features), bin_name)
        if key in built:
            return common.StepResult(True, "already built")
        lock = os.path.join(common.HARNESS_DIR, "Cargo.lock")
        shutil.copyfile(os.path.join(common.REPO, "Cargo.lock"), lock)
        cmd = ["cargo", "build", "--offline", "--release", "--target-dir", common._tdir("release", tuple(features)), "--bin", bin_name]
        if features:
            cmd += ["--features", ",".join(features)]
        rc, out, dt = sh(cmd, cwd=common.HARNESS_DIR, timeout=timeout)
        if rc != 0:
            return common.StepResult(False, "instrumented harness build failed", out)
        built.add(key)
        OBJECTS.add(harness_bin("release", features, bin_name))
        return common.StepResult(True, "harness built in %.1fs" % dt)

    common.sh = sh
    common.HARNESS_DIR = os.path.join(work, "harness")
    common.harness_bin = harness_bin
    common.build_harness = build_harness
    os.environ["LLVM_PROFILE_FILE"] = os.path.join(work, "prof", "%p-%8m.profraw")


OBJECTS = set()


# ---------------------------------------------------------------------------------------------------------------
# replay of one property module (what lib/runner.py run_check does with the implementation side)
# ---------------------------------------------------------------------------------------------------------------
def replay(name, tier, work, args):
    t0 = time.time()
    P = importlib.import_module(name)
    if name == "c18":
        P.CFG_DIR = os.path.join(work, "harness_cfg")
        if not args.cfg_matrix:
            P.QUICK = [c for c in P.QUICK if c[0] == "default"]
        real_build = P.build

        def build(cfg, feats):
            ok, binary, out = real_build(cfg, feats)
            if ok:
                OBJECTS.add(binary)
            return ok, binary, out
        P.build = build
    if name == "c19":
        if args.no_macro:
            log("c19 skipped (--no-macro)")
            return
        P.TEMPLATE = os.path.join(work, "harness_macro")
        P.WORK = os.path.join(work, "c19")
        OBJECTS.add(os.path.join(P.WORK, "target", "release", "verif-harness-macro"))
    hp = getattr(P, "HARNESS", {})
    features, bin_name = tuple(hp.get("features", ())), hp.get("bin", "core")
    r = common.build_harness("release", features, bin_name=bin_name)
    if not r.ok:
        log("%s: %s\n%s" % (name, r.detail, r.out[-3000:]))
        return
    main = common.harness_bin("release", features, bin_name)
    bins = {"main": main}
    for xn, (pf, ft) in getattr(P, "EXTRA_HARNESS", {}).items():
        if tuple(ft):                                        # a feature build is other source; a profile build is not
            rx = common.build_harness("release", tuple(ft), bin_name=bin_name)
            if rx.ok:
                bins[xn] = common.harness_bin("release", tuple(ft), bin_name)
            else:
                log("%s [%s]: %s\n%s" % (name, xn, rx.detail, rx.out[-2000:]))
        else:
            bins[xn] = main
    P.BINS = bins
    P.DRIVER_BIN = common.driver_bin(getattr(P, "DRIVER_NAME", "core"))
    if not args.no_obligations and hasattr(P, "obligations"):
        try:
            P.obligations()
        except Exception as e:                               # an obligation about the Coq side is not our business here
            log("%s: obligations() raised %r (ignored)" % (name, e))
    cases = list(P.gen_cases(random.Random(1), tier))
    lines = [c.line() for c in cases]
    impl = common.run_lines(main, lines)
    n_extra = 0
    for xn in getattr(P, "EXTRA_ORACLE", []):
        if bins.get(xn) in (None, main):
            continue
        sel = getattr(P, "extra_select", lambda c, n: True)
        todo = [c.line() for c in cases if sel(c, xn)]
        common.run_lines(bins[xn], todo)
        n_extra += len(todo)
    # routed batches (c16 / c17 send some kinds to other builds from inside oracle / compare)
    bad = 0
    for c, il in zip(cases, impl):
        try:
            P.oracle(c, il)
        except Exception:
            bad += 1
    crashes = sum(1 for l in impl if l is None or l.startswith(("PANIC", "CRASH", "TIMEOUT")))
    log("%-8s %6d cases on %s (+%d on feature builds), %d crash/panic lines, %d oracle exceptions, %.0fs"
        % (name, len(cases), os.path.basename(main), n_extra, crashes, bad, time.time() - t0))


# ---------------------------------------------------------------------------------------------------------------
# report
# ---------------------------------------------------------------------------------------------------------------
HEADER = re.compile(r"^(\s*)(?:pub(?:\([^)]*\))?\s+)?(?:unsafe\s+)?(impl|trait|mod)\b(.*)$")
FNRX = re.compile(r"^(\s*)((?:pub(?:\([^)]*\))?\s+)?)((?:const\s+|async\s+|unsafe\s+|extern\s+\"[^\"]*\"\s+)*)fn\s+([A-Za-z0-9_]+)")


def index_source(path):
    """-> {line: info} for every `fn` item of the file: name, visibility, enclosing impl/trait/mod headers, cfg attributes"""
    lines = open(path, encoding="utf-8").read().split("\n")
    stack, fns, attrs = [], {}, []
    for i, l in enumerate(lines, 1):
        st = l.strip()
        if st.startswith("#["):
            attrs.append(st)
            continue
        if st.startswith("//") or not st:
            continue
        ind = len(l) - len(l.lstrip())
        while stack and st.startswith("}") and ind == stack[-1][0]:
            stack.pop()
            break
        m = HEADER.match(l)
        if m and not st.endswith(";") and not st.endswith("}"):
            stack.append((len(m.group(1)), m.group(2), re.sub(r"\s*(where.*)?\{?\s*$", "", m.group(3)).strip(), list(attrs)))
        f = FNRX.match(l)
        if f:
            sig = l
            j = i
            while "{" not in sig and ";" not in sig and j < len(lines):
                sig += " " + lines[j].strip()
                j += 1
            encl = [(k, h) for _, k, h, _ in stack]
            cfgs = [a for a in attrs if a.startswith("#[cfg")] + [a for _, _, _, at in stack for a in at if a.startswith("#[cfg")]
            fns[i] = {"name": f.group(4), "pub": f.group(2).strip(), "enclosing": encl, "cfg": cfgs,
                      "sig": re.sub(r"\s+", " ", sig.split("{")[0]).strip(), "in_test": any("test" in c for c in cfgs)}
        attrs = []
    return fns


SERDE_TRAITS = re.compile(r"\b(Serializer|Deserializer|Serialize\w*|Deserialize\w*|Visitor|MapAccess|SeqAccess|EnumAccess|VariantAccess|IntoDeserializer|"
                          r"DeserializeSeed|Expected)\b")
STD_TRAITS = re.compile(r"\b(Debug|Display|Clone|PartialEq|Eq|Hash|PartialOrd|Ord|Default|Deref|DerefMut|Borrow|AsRef|Drop|Iterator|IntoIterator|"
                        r"DoubleEndedIterator|ExactSizeIterator|FusedIterator|Extend|FromIterator|Index|IndexMut|Write|Error)\b")
CONV_TRAITS = re.compile(r"\b(From|Into|TryFrom|TryInto|FromStr|ToString)\b")


def tag(info, rel):
    """heuristic class of a function for the gap list: serde trait method / error path / conversion / mutator /
    std trait method / constructor / plain accessor"""
    name, sig = info["name"], info["sig"]
    impl = next((h for k, h in reversed(info["enclosing"]) if k == "impl"), "")
    trait = impl.split(" for ")[0] if " for " in impl else ""
    args = sig.split("->")[0]
    if "VisitMut" in trait:
        return "mutator"
    if re.search(r"\bVisit\b", trait):
        return "plain accessor"
    if SERDE_TRAITS.search(trait) or (not trait and re.match(r"^(serialize_|deserialize_)", name)):
        return "serde trait method"
    if rel.endswith("error.rs") or re.search(r"\bError\b", impl) or re.search(r"error|custom|invalid|unexpected|missing|unknown|duplicate|description", name):
        return "error path"
    if re.search(r"\b(WriteToml\w+|ToToml\w+)\b", trait):
        return "conversion"
    if re.search(r"\bIndex(Mut)?\b", trait):
        return "mutator" if name == "index_mut" else "plain accessor"
    if CONV_TRAITS.search(trait) or re.match(r"^(from|into|to|as|try_from|try_into|make)(_|$)", name):
        return "conversion"
    if re.search(r"&('\w+ )?mut self|\bmut self\b", args):
        return "mutator"
    if trait and STD_TRAITS.search(trait):
        return "std trait method (%s)" % STD_TRAITS.search(trait).group(1)
    if re.match(r"^(new|with_|default|empty)", name) or ("self" not in args and "->" in sig and "Self" in sig.split("->")[1]):
        return "constructor"
    return "plain accessor"


def is_public(info):
    if info["pub"] == "pub":
        return True
    encl = info["enclosing"]
    if encl and encl[-1][0] == "impl" and " for " in encl[-1][1]:
        return True                                          # a trait-impl method is as public as the trait
    return False


def line_counts(segments):
    """per-line execution counts from llvm-cov's file segments [line, col, count, has_count, is_region_entry, is_gap]:
    the count of a line is the maximum over the region that wraps into it and the regions that start on it"""
    by = {}
    for sgm in segments:
        by.setdefault(sgm[0], []).append(sgm)
    out, cur = {}, None
    for ln in range(1, (max(by) if by else 0) + 1):
        ss = by.get(ln, [])
        counts = []
        if cur is not None and cur[3] and not cur[5]:
            counts.append(cur[2])
        counts += [x[2] for x in ss if x[3] and x[4] and not x[5]]
        if ss:
            cur = ss[-1]
        if counts:
            out[ln] = max(counts)
    return out


def report(work, print_table=True):
    profdata, cov = llvm_tool("llvm-profdata"), llvm_tool("llvm-cov")
    raws = glob.glob(os.path.join(work, "prof", "*.profraw"))
    merged = os.path.join(work, "merged.profdata")
    if raws:
        lst = os.path.join(work, "profraw.list")
        open(lst, "w").write("\n".join(raws) + "\n")
        subprocess.check_call([profdata, "merge", "-sparse", "-f", lst, "-o", merged])
        log("merged %d raw profiles" % len(raws))
    objs_file = os.path.join(work, "objects.json")
    if OBJECTS:
        json.dump(sorted(o for o in OBJECTS if os.path.exists(o)), open(objs_file, "w"))
    objs = json.load(open(objs_file))
    repo = os.path.realpath(common.REPO)
    keep_rx = re.compile(r"^%s/crates/(%s)/src/" % (re.escape(repo), "|".join(CRATES)))
    os.makedirs(OUT, exist_ok=True)

    # One export per binary, merged HERE.  (llvm-cov with several -object arguments keeps the first record it meets for a
    # function name; a binary that links a function it never calls carries an all-zero record for it, which then hides the
    # counts another binary collected: measured, TableSerializer::serialize_struct showed 0 instead of 26980.)
    lines, regions, branches, funcs = {}, {}, {}, {}        # rel -> {line: n}; (rel, span) -> n; (rel, span) -> [t, f]; (rel, line, col) -> n
    for o in objs:
        raw = subprocess.check_output([cov, "export", "-format=text", "-instr-profile", merged, o], stderr=subprocess.DEVNULL)
        data = json.loads(raw)["data"][0]
        for f in data["files"]:
            if keep_rx.match(f["filename"]):
                tgt = lines.setdefault(f["filename"][len(repo) + 1:], {})
                for ln, n in line_counts(f["segments"]).items():
                    tgt[ln] = max(tgt.get(ln, 0), n)
        for fn in data["functions"]:
            names = [x[len(repo) + 1:] if keep_rx.match(x) else None for x in fn["filenames"]]
            first = None
            for r in fn["regions"]:
                rel = names[r[5]]
                if rel is None or r[7] != 0:                 # code regions only (no expansion / skipped / gap regions)
                    continue
                k = (rel, r[0], r[1], r[2], r[3])
                regions[k] = max(regions.get(k, 0), r[4])
                first = first or (rel, r[0], r[1])
            for br in fn.get("branches", []):
                rel = names[br[6]]
                if rel is None:
                    continue
                k = (rel, br[0], br[1], br[2], br[3])
                cur = branches.setdefault(k, [0, 0])
                cur[0], cur[1] = max(cur[0], br[4]), max(cur[1], br[5])
            if first:
                funcs[first] = max(funcs.get(first, 0), fn["count"])
    del data

    # ---- per file / per crate summary ------------------------------------------------------------------------
    kinds = ("functions", "regions", "lines", "branches")
    files = {}

    def bump(rel, kind, hit, n=1):
        d = files.setdefault(rel, {k: {"total": 0, "hit": 0} for k in kinds})[kind]
        d["total"] += n
        d["hit"] += hit
    for (rel, _l, _c), n in funcs.items():
        bump(rel, "functions", 1 if n else 0)
    for k, n in regions.items():
        bump(k[0], "regions", 1 if n else 0)
    for rel, d in lines.items():
        for ln, n in d.items():
            bump(rel, "lines", 1 if n else 0)
    for k, (t, f) in branches.items():
        bump(k[0], "branches", (1 if t else 0) + (1 if f else 0), 2)
    crates = {}
    for rel, s in files.items():
        c = crates.setdefault(rel.split("/")[1], {k: {"total": 0, "hit": 0} for k in kinds})
        for k in c:
            c[k]["total"] += s[k]["total"]
            c[k]["hit"] += s[k]["hit"]
    total = {k: {"total": sum(c[k]["total"] for c in crates.values()), "hit": sum(c[k]["hit"] for c in crates.values())} for k in kinds}

    # ---- functions with zero hits ------------------------------------------------------------------------------
    index = {}
    gaps, listed = {}, set()
    for (rel, line, _col), count in sorted(funcs.items()):
        if rel not in index:
            index[rel] = index_source(os.path.join(repo, rel))
        info = index[rel].get(line)
        if info is None:
            continue                                         # closures and macro-generated bodies count in regions, not here
        listed.add((rel, line))
        if count == 0 and is_public(info) and not info["in_test"]:
            impl = next((h for k, h in reversed(info["enclosing"]) if k == "impl"), "")
            gaps.setdefault(rel, []).append({"line": line, "fn": info["name"], "impl": impl, "tag": tag(info, rel), "sig": info["sig"][:200]})
    # functions of the source with no coverage record at all: not compiled in the measured configurations
    not_compiled = {}
    for rel in sorted(set(files) | set(_all_sources(repo))):
        if rel not in index:
            index[rel] = index_source(os.path.join(repo, rel))
        for line, info in sorted(index[rel].items()):
            if (rel, line) in listed or info["in_test"] or not is_public(info):
                continue
            if not any(k == "trait" for k, _ in info["enclosing"][-1:]) or "{" in info["sig"]:
                impl = next((h for k, h in reversed(info["enclosing"]) if k == "impl"), "")
                why = ("feature-gated: " + " ".join(info["cfg"])) if info["cfg"] else "no coverage record (macro body or trait declaration)"
                not_compiled.setdefault(rel, []).append({"line": line, "fn": info["name"], "impl": impl, "tag": why, "sig": info["sig"][:200]})

    summary = {"tier": ARGS.tier, "toolchain": subprocess.check_output(["rustc", "+" + TOOLCHAIN, "--version"]).decode().strip(),
               "repo_head": subprocess.check_output(["git", "-C", repo, "rev-parse", "--short", "HEAD"]).decode().strip(),
               "branch_coverage": bool(BRANCH_FLAGS),
               "objects": [os.path.relpath(o, work) for o in objs], "total": total, "crates": crates, "files": files}
    json.dump(summary, open(os.path.join(OUT, "summary.json"), "w"), indent=1, sort_keys=True)
    json.dump({"zero_hit_public": gaps, "not_compiled": not_compiled}, open(os.path.join(OUT, "gaps.json"), "w"), indent=1, sort_keys=True)

    with open(os.path.join(OUT, "GAPS.md"), "w") as out:
        out.write("# public functions and trait-impl methods with zero hits (tier %s, repo %s)\n\n" % (ARGS.tier, summary["repo_head"]))
        for rel in sorted(gaps):
            out.write("## %s (%d)\n" % (rel, len(gaps[rel])))
            for e in gaps[rel]:
                out.write("- `%s` line %d%s — %s\n" % (e["fn"], e["line"], (" in `impl %s`" % e["impl"]) if e["impl"] else "", e["tag"]))
            out.write("\n")
        out.write("# not compiled in the measured configurations\n\n")
        for rel in sorted(not_compiled):
            for e in not_compiled[rel]:
                out.write("- %s: `%s` line %d — %s\n" % (rel, e["fn"], e["line"], e["tag"]))

    def pct(d):
        return "%5.1f%%" % (100.0 * d["hit"] / d["total"]) if d["total"] else "   n/a"

    def row(name, s):
        return "| %s | %d / %d | %s | %d / %d | %s | %d / %d | %s | %d / %d | %s |" % (
            name, s["functions"]["hit"], s["functions"]["total"], pct(s["functions"]), s["regions"]["hit"], s["regions"]["total"], pct(s["regions"]),
            s["lines"]["hit"], s["lines"]["total"], pct(s["lines"]), s["branches"]["hit"], s["branches"]["total"], pct(s["branches"]))
    tab = ["| crate / file | functions hit / total | % | regions hit / total | % | lines hit / total | % | branches hit / total | % |",
           "|---|---|---|---|---|---|---|---|---|"]
    tab.append(row("**all five crates**", total))
    for c in sorted(crates):
        tab.append(row("**%s**" % c, crates[c]))
        for rel in sorted(files):
            if rel.split("/")[1] == c:
                tab.append(row(rel.split("/src/")[1], files[rel]))
    open(os.path.join(OUT, "TABLE.md"), "w").write("\n".join(tab) + "\n")

    # ---- uncovered lines and one-sided branches, per file -------------------------------------------------------
    with open(os.path.join(OUT, "uncovered.txt"), "w") as out:
        out.write("# lines never executed (` `) and lines holding a branch with a side never taken (`+`, [br col T=.. F=..]); closing braces omitted\n")
        for rel in sorted(files):
            src = open(os.path.join(repo, rel), encoding="utf-8").read().split("\n")
            unc = {ln for ln, n in lines.get(rel, {}).items() if n == 0}
            brs = {}
            for k, (t, f) in branches.items():
                if k[0] == rel and (t == 0 or f == 0):
                    brs.setdefault(k[1], []).append((k[2], t, f))
            out.write("===== %s: %d uncovered lines, %d one-sided branches\n" % (rel, len(unc), sum(len(v) for v in brs.values())))
            for ln in sorted(unc | set(brs)):
                t = src[ln - 1] if ln - 1 < len(src) else ""
                if ln in unc and ln not in brs and t.strip() in ("}", "{", "", "})", "};", "),", "}),"):
                    continue
                mark = " ".join("[br c%d T=%d F=%d]" % x for x in sorted(brs.get(ln, [])))
                out.write("%5d%s| %s %s\n" % (ln, " " if ln in unc else "+", t[:140], mark))
    if print_table:
        print("\n".join(tab))
        n = sum(len(v) for v in gaps.values())
        print("\n%d public functions / trait-impl methods with zero hits (coverage/gaps.json), %d not compiled in the measured configurations; "
              "uncovered lines and one-sided branches in coverage/uncovered.txt"
              % (n, sum(len(v) for v in not_compiled.values())))
    return summary


def _all_sources(repo):
    for c in CRATES:
        for p in glob.glob(os.path.join(repo, "crates", c, "src", "**", "*.rs"), recursive=True):
            yield p[len(repo) + 1:]


ARGS = None


def main():
    global ARGS
    import argparse
    ap = argparse.ArgumentParser()
    ap.add_argument("--tier", default="quick")
    ap.add_argument("--work", default="/root/cov-work")
    ap.add_argument("--props", default="")
    ap.add_argument("--cfg-matrix", action="store_true")
    ap.add_argument("--no-macro", action="store_true")
    ap.add_argument("--no-obligations", action="store_true")
    ap.add_argument("--report-only", action="store_true")
    ap.add_argument("--keep", action="store_true")
    ARGS = args = ap.parse_args()
    work = os.path.abspath(args.work)
    if not args.report_only:
        for d in ("prof", "prof-build"):
            shutil.rmtree(os.path.join(work, d), ignore_errors=True)
        prepare(work)
        redirect(work)
        want = [p.strip().lower() for p in args.props.split(",") if p.strip()] or MODULES
        for name in MODULES:
            if name in want or name.upper() in [w.upper() for w in want]:
                try:
                    replay(name, args.tier, work, args)
                except Exception as e:
                    import traceback
                    log("%s: replay failed: %r\n%s" % (name, e, traceback.format_exc()[-1500:]))
    report(work)
    if not args.keep and not args.report_only:
        for d in glob.glob(os.path.join(work, "*", "target*")) + [os.path.join(work, "prof-build")]:
            shutil.rmtree(d, ignore_errors=True)
        log("instrumented target directories removed (the merged profile and objects list stay in %s; --keep to keep the binaries)" % work)


if __name__ == "__main__":
    main()
